//! C14/C15/C16: run the real `typstyle` binary on generated file trees and invocations; write
//! scenario lines for the Lean CLI model and evaluate the properties' oracles directly.
use crate::gens::Cfg;
use crate::util::*;
use crate::{fail_json_pub as fail_json, Stats};
use std::collections::BTreeMap;
use std::io::Write as _;
use std::path::{Path, PathBuf};
use std::process::{Command, Stdio};
use std::time::{Duration, SystemTime};

#[derive(Clone, Debug)]
pub enum Entry {
    File(Vec<u8>),
    Dir(Vec<(String, Entry)>),
    Symlink(String),
}

#[derive(Clone, Debug)]
pub enum Cmd {
    Files(Vec<String>),
    Stdin(String),
    FormatAll(Option<String>),
}

#[derive(Clone, Debug)]
pub struct Args {
    pub cmd: Cmd,
    pub inplace: bool,
    pub check: bool,
    pub quiet: bool,
    pub verbose: bool,
    /// `-a` / `-p`: the debug dumps of the syntax tree and of the pretty document
    pub ast: bool,
    pub pretty_doc: bool,
    pub column: usize,
    pub tab: usize,
    pub reorder: bool,
}

#[derive(Clone, Debug)]
pub struct Scenario {
    pub root_name: String,
    pub tree: Entry,
    pub args: Args,
}

/// Variants of a content that differ from it only in the final newline, the line-ending style or
/// at the edges of the text: a byte order mark or another invisible character in front, blank lines
/// or blanks before or after (what an editor or a checkout may add; the library treats all of it as
/// ordinary text, so must every front end).
fn content_variant(r: &mut Rng, c: &str) -> String {
    match r.below(14) {
        0 => c.strip_suffix('\n').unwrap_or(c).to_string(),
        1 => c.replace('\n', "\r\n"),
        2 => format!("{}\n", c),
        3 => format!("\u{feff}{}", c),
        4 => c.replace('\n', "\r"),
        5 => format!("\n\n{}", c),
        6 => format!("{}  \n\n", c),
        7 => format!("{}{}", ["\u{200b}", "\u{a0}", " ", "\t", "\u{2028}", "\u{feff}\u{feff}"][r.below(6)], c),
        _ => c.to_string(),
    }
}

const CONTENTS: &[&str] = &[
    "#let x = 1\n",
    "#let   x=1\n",
    "#let x = (1,2,\n3)",
    "= Title\n\nSome text.\n",
    "=  Title\nSome   text here #f( a,b )\n",
    "#let x = (\n",
    "$ a +  b $",
    "",
    "\n",
    "#import \"m.typ\": c, b, a\n",
    "#f(aaaaaaaaaaaaaaaa, bbbbbbbbbbbbbbbbbbb, cccccccccccccccccc, dddddddddddddddd, eeeeeeeeeeeeee)\n",
    "#{\n    let a = 1\n}\n",
    "text ]\n",
    "ok\n",
    // more import statements: the flag must reach every front end (C19), and must not act where the
    // guards (comments, duplicate names) or its absence say so
    "#import \"m.typ\": zeta, beta as b, gamma.inner, alpha\n",
    "#import \"m.typ\": (b, /* c */ a)\n",
    "#import \"m.typ\": b, a as b\n#import \"n.typ\": y,x\ntext\n",
];
const FILE_NAMES: &[&str] = &[
    "a.typ", "b.typ", "c.typ", "main.typ", "notes.txt", ".hidden.typ", "noext", "d.TYP", "e.typ.bak", "x.y.typ", "README.md", "typ",
];
const DIR_NAMES: &[&str] = &["sub", "lib", ".git", ".cache", "deep", "dir.typ", "Chapter 1"];

/// Large inputs: erroneous text with a long unterminated last line, long well-formed prose,
/// long code; with and without a final newline.
fn big_content(r: &mut Rng) -> String {
    let n = [1000usize, 1023, 1024, 1500, 4096, 9000, 70000][r.below(7)];
    match r.below(5) {
        0 => format!("*strong\n{}", "x".repeat(n)),
        1 => format!("#let x = (\n{}", "y ".repeat(n / 2)),
        2 => format!("= Title\n\n{}\n", "word ".repeat(n / 5)),
        3 => format!("#let   v=({})", "1, ".repeat(n / 3)),
        _ => format!("{}\ntext ]{}", "ok\n".repeat(3), "z".repeat(n)),
    }
}

fn gen_entry(r: &mut Rng, depth: usize) -> Entry {
    let n = if depth == 0 { 2 + r.below(5) } else { r.below(4) };
    let mut es: Vec<(String, Entry)> = vec![];
    for _ in 0..n {
        let is_dir = depth < 3 && r.below(4) == 0;
        let name: String = if is_dir { r.pick(DIR_NAMES).to_string() } else { r.pick(FILE_NAMES).to_string() };
        if es.iter().any(|(k, _)| *k == name) {
            continue;
        }
        let e = if is_dir {
            gen_entry(r, depth + 1)
        } else {
            match r.below(14) {
                0 => Entry::File(vec![0xff, 0xfe, b'#', b'x', 0x80]),
                1 => {
                    // a link to a file that is not an eligible target itself
                    let target = r.pick(&["notes.txt", ".hidden.typ", "noext", "a.typ", "e.typ.bak"]).to_string();
                    if !es.iter().any(|(k, _)| *k == target) && target != name {
                        let base = r.pick(&CONTENTS[1..7]);
                        let c = content_variant(r, base);
                        es.push((target.clone(), Entry::File(c.into_bytes())));
                    }
                    Entry::Symlink(target)
                }
                2 => Entry::File(big_content(r).into_bytes()),
                _ => {
                    let base = r.pick(CONTENTS);
                    let c = content_variant(r, base);
                    Entry::File(c.into_bytes())
                }
            }
        };
        es.push((name, e));
    }
    Entry::Dir(es)
}

fn all_paths(e: &Entry, prefix: &str, files: &mut Vec<String>, dirs: &mut Vec<String>) {
    if let Entry::Dir(es) = e {
        for (n, c) in es {
            let p = if prefix.is_empty() { n.clone() } else { format!("{}/{}", prefix, n) };
            match c {
                Entry::Dir(_) => {
                    dirs.push(p.clone());
                    all_paths(c, &p, files, dirs);
                }
                Entry::File(_) => files.push(p),
                Entry::Symlink(_) => {}
            }
        }
    }
}

pub const CLI_U: u64 = 200_000;
pub fn scenario(idx: u64) -> Scenario {
    let mut r = Rng::new(mix(0xC11, idx));
    let tree = gen_entry(&mut r, 0);
    let (mut files, mut dirs) = (vec![], vec![]);
    all_paths(&tree, "", &mut files, &mut dirs);
    let root_name = r.pick(&["root", ".hroot", "proj.typ", "x"]).to_string();
    let shape = r.below(10);
    let cmd = match shape {
        0..=3 => {
            let n = 1 + r.below(4);
            let mut ps = vec![];
            for _ in 0..n {
                match r.below(10) {
                    0 => ps.push("missing.typ".to_string()),
                    1 if !dirs.is_empty() => ps.push(dirs[r.below(dirs.len())].clone()),
                    _ if !files.is_empty() => ps.push(files[r.below(files.len())].clone()),
                    _ => ps.push("missing.typ".to_string()),
                }
            }
            Cmd::Files(ps)
        }
        4 => Cmd::Stdin(if r.below(4) == 0 { big_content(&mut r) } else { let c = r.pick(CONTENTS); content_variant(&mut r, c) }),
        _ => match r.below(6) {
            0 | 1 => Cmd::FormatAll(None),
            2 => Cmd::FormatAll(Some(".".into())),
            3 if !dirs.is_empty() => Cmd::FormatAll(Some(dirs[r.below(dirs.len())].clone())),
            4 if !files.is_empty() && r.below(3) == 0 => Cmd::FormatAll(Some(files[r.below(files.len())].clone())),
            _ => Cmd::FormatAll(None),
        },
    };
    let (inplace, check) = match (&cmd, r.below(10)) {
        (Cmd::FormatAll(_), 0..=4) => (false, true),
        (Cmd::FormatAll(_), 5) => (true, false),
        (Cmd::FormatAll(_), _) => (false, false),
        (_, 0..=2) => (false, true),
        (_, 3..=5) => (true, false),
        (_, 6) if r.below(4) == 0 => (true, true),
        _ => (false, false),
    };
    let (quiet, verbose) = match r.below(8) {
        0 => (true, false),
        1 | 2 => (false, true),
        _ => (false, false),
    };
    let column = match r.below(5) {
        0 => 80,
        1 => 0,
        2 => 20,
        3 => r.below(401),
        _ => 120,
    };
    let tab = match r.below(4) {
        0 => 2,
        1 => 4,
        _ => r.below(17),
    };
    let reorder = r.below(3) == 0;
    // the debug options (drawn last: the rest of a scenario does not depend on them)
    let dbg = r.below(10);
    let (ast, pretty_doc) = (dbg == 0 || dbg == 2, dbg == 1 || dbg == 2);
    Scenario { root_name, tree, args: Args { cmd, inplace, check, quiet, verbose, ast, pretty_doc, column, tab, reorder } }
}

// ---------------------------------------------------------------------------------------------
fn materialise(e: &Entry, p: &Path, past: SystemTime) {
    match e {
        Entry::Dir(es) => {
            std::fs::create_dir_all(p).unwrap();
            for (n, c) in es {
                materialise(c, &p.join(n), past);
            }
        }
        Entry::File(b) => {
            std::fs::write(p, b).unwrap();
            if let Ok(f) = std::fs::File::options().write(true).open(p) {
                let _ = f.set_modified(past);
            }
        }
        Entry::Symlink(t) => {
            let _ = std::os::unix::fs::symlink(t, p);
        }
    }
}

/// Read the tree back: (entry with current bytes, map path -> touched)
fn read_back(e: &Entry, p: &Path, past: SystemTime, prefix: &str, touched: &mut BTreeMap<String, bool>) -> Entry {
    match e {
        Entry::Dir(es) => Entry::Dir(
            es.iter()
                .map(|(n, c)| {
                    let pp = if prefix.is_empty() { n.clone() } else { format!("{}/{}", prefix, n) };
                    (n.clone(), read_back(c, &p.join(n), past, &pp, touched))
                })
                .collect(),
        ),
        Entry::File(_) => {
            let b = std::fs::read(p).unwrap_or_default();
            let m = std::fs::metadata(p).and_then(|m| m.modified()).unwrap_or(past);
            touched.insert(prefix.to_string(), m != past);
            Entry::File(b)
        }
        Entry::Symlink(t) => Entry::Symlink(t.clone()),
    }
}

fn ser_entry(e: &Entry, touched: Option<(&BTreeMap<String, bool>, &str)>, out: &mut String) {
    match e {
        Entry::File(b) => {
            let t = touched.map(|(m, p)| if *m.get(p).unwrap_or(&false) { " 1" } else { " 0" }).unwrap_or("");
            match std::str::from_utf8(b) {
                Ok(s) => {
                    out.push_str("f ");
                    hex(s, out);
                    out.push_str(t);
                }
                Err(_) => {
                    out.push('b');
                    out.push_str(t);
                }
            }
        }
        Entry::Symlink(_) => out.push('l'),
        Entry::Dir(es) => {
            out.push_str(&format!("d {}", es.len()));
            for (n, c) in es {
                out.push(' ');
                hex(n, out);
                out.push(' ');
                let sub;
                let t2 = match touched {
                    Some((m, p)) => {
                        sub = if p.is_empty() { n.clone() } else { format!("{}/{}", p, n) };
                        Some((m, sub.as_str()))
                    }
                    None => None,
                };
                ser_entry(c, t2, out);
            }
        }
    }
}

fn collect_texts(e: &Entry, acc: &mut Vec<String>) {
    match e {
        Entry::File(b) => {
            if let Ok(s) = std::str::from_utf8(b) {
                if !acc.iter().any(|x| x == s) {
                    acc.push(s.to_string());
                }
            }
        }
        Entry::Dir(es) => {
            for (_, c) in es {
                collect_texts(c, acc)
            }
        }
        _ => {}
    }
}

pub fn lib(a: &Args, content: &str) -> Option<String> {
    let cfg = Cfg { tab: a.tab, width: a.column, blank: 2, reorder: a.reorder };
    crate::obs::format(content, cfg).ok()
}

pub struct Observed {
    pub exit: i32,
    pub stdout: String,
    pub stderr: String,
    pub tree: Entry,
    pub touched: BTreeMap<String, bool>,
}

pub fn argv(a: &Args) -> Vec<String> {
    let mut v = vec![];
    if a.inplace {
        v.push("-i".into());
    }
    if a.check {
        v.push("--check".into());
    }
    if a.quiet {
        v.push("-q".into());
    }
    if a.verbose {
        v.push("-v".into());
    }
    if a.ast {
        v.push("-a".into());
    }
    if a.pretty_doc {
        v.push("-p".into());
    }
    v.push("-c".into());
    v.push(a.column.to_string());
    v.push("-t".into());
    v.push(a.tab.to_string());
    if a.reorder {
        v.push("--reorder-import-items".into());
    }
    match &a.cmd {
        Cmd::Files(ps) => v.extend(ps.iter().cloned()),
        Cmd::Stdin(_) => {}
        Cmd::FormatAll(d) => {
            v.push("format-all".into());
            if let Some(d) = d {
                v.push(d.clone());
            }
        }
    }
    v
}

pub fn run_real(bin: &str, sc: &Scenario, scratch: &Path) -> Observed {
    let root = scratch.join(&sc.root_name);
    let _ = std::fs::remove_dir_all(scratch);
    let past = SystemTime::UNIX_EPOCH + Duration::from_secs(1_500_000_000);
    materialise(&sc.tree, &root, past);
    // The debug options print a dump of the syntax tree (`-a`) and of the pretty document (`-p`,
    // well-formed inputs only) before each input's result.  The dumps are computed here in-process
    // from what the binary will read (in order; an input rewritten in place earlier in the same
    // invocation is read in its new state) and removed from the captured output below, so that the
    // oracles and the model see what a run without the debug options must print.
    let mut dumps: Vec<String> = vec![];
    let a0 = &sc.args;
    let usage = (a0.inplace && a0.check) || (a0.inplace && matches!(a0.cmd, Cmd::Stdin(_)));
    if (a0.ast || a0.pretty_doc) && !usage {
        let cfg = Cfg { tab: a0.tab, width: a0.column, blank: 2, reorder: a0.reorder };
        let mut current: BTreeMap<PathBuf, String> = BTreeMap::new();
        let texts: Vec<(Option<PathBuf>, String)> = match &a0.cmd {
            Cmd::Files(ps) => ps
                .iter()
                .filter_map(|p| {
                    let full = root.join(p);
                    let key = full.canonicalize().ok()?;
                    let t = std::fs::read_to_string(&full).ok()?;
                    Some((Some(key), t))
                })
                .collect(),
            Cmd::Stdin(s) => vec![(None, s.clone())],
            Cmd::FormatAll(_) => vec![],
        };
        for (key, t0) in texts {
            let t = key.as_ref().and_then(|k| current.get(k).cloned()).unwrap_or(t0);
            let source = typst_syntax::Source::detached(t.clone());
            if a0.ast {
                dumps.push(format!("{:#?}\n", source.root()));
            }
            let mut d = String::new();
            let res = typstyle_core::Typstyle::new(cfg.to_config()).format_source_inspect(&source, |doc| d = format!("{:#?}\n", doc));
            if let Ok(res) = res {
                if a0.pretty_doc {
                    dumps.push(d);
                }
                if a0.inplace && !a0.check && res != t {
                    if let Some(k) = key {
                        current.insert(k, res);
                    }
                }
            }
        }
    }
    let mut c = Command::new(bin);
    c.args(argv(&sc.args)).current_dir(&root).env("NO_COLOR", "1").stdout(Stdio::piped()).stderr(Stdio::piped());
    let out = match &sc.args.cmd {
        Cmd::Stdin(s) => {
            c.stdin(Stdio::piped());
            let mut ch = c.spawn().unwrap();
            let _ = ch.stdin.take().unwrap().write_all(s.as_bytes());
            ch.wait_with_output().unwrap()
        }
        _ => {
            c.stdin(Stdio::null());
            c.output().unwrap()
        }
    };
    let mut touched = BTreeMap::new();
    let tree = read_back(&sc.tree, &root, past, "", &mut touched);
    let rootp = format!("{}/", root.display());
    let mut stdout = String::from_utf8_lossy(&out.stdout).to_string();
    if !dumps.is_empty() {
        // remove the dumps, in order; if one is missing or out of place the output is left as it is
        // (and will not be what the oracles and the model expect)
        let mut rest: &str = &stdout;
        let mut kept = String::new();
        let mut ok = true;
        for d in &dumps {
            match rest.find(d.as_str()) {
                Some(pos) => {
                    kept += &rest[..pos];
                    rest = &rest[pos + d.len()..];
                }
                None => {
                    ok = false;
                    break;
                }
            }
        }
        if ok {
            kept += rest;
            stdout = kept;
        }
    }
    let stdout = stdout.replace(&rootp, "");
    let stderr = String::from_utf8_lossy(&out.stderr).replace(&rootp, "");
    Observed { exit: out.status.code().unwrap_or(-1), stdout, stderr, tree, touched }
}

fn mask_line(l: &str) -> String {
    let mut l = l.to_string();
    if let Some(p) = l.rfind(" in ") {
        let tail = &l[p + 4..];
        if tail.ends_with('s') && tail.chars().next().map(|c| c.is_ascii_digit()).unwrap_or(false) {
            l = format!("{} in <T>", &l[..p]);
        }
    }
    l.replace("Would reformat: ./", "Would reformat: ")
}

fn is_log_line(l: &str) -> bool {
    l.starts_with("Would reformat: ") || (l.contains(" would be reformatted (") && l.contains("checked in")) || l.starts_with("Successfully formatted ")
}

/// Canonical result line, same format as the Lean driver's.
pub fn result_line(id: &str, sc: &Scenario, o: &Observed) -> String {
    let a = &sc.args;
    let plain = matches!(a.cmd, Cmd::Files(_) | Cmd::Stdin(_)) && !a.check && !a.inplace;
    let (outs, infos) = if o.exit == 2 {
        (String::new(), String::new())
    } else if plain {
        (o.stdout.clone(), String::new())
    } else {
        let mut ls: Vec<String> = o.stdout.lines().map(mask_line).collect();
        ls.sort();
        (String::new(), ls.join("\n"))
    };
    let warns = o.stderr.lines().filter(|l| l.starts_with("warn:")).count();
    let errs = if o.exit == 2 { 0 } else { o.stderr.lines().filter(|l| l.starts_with("error:")).count() };
    let mut t = String::new();
    ser_entry(&o.tree, Some((&o.touched, "")), &mut t);
    format!("R cli {} exit={} out={} info={} warns={} errors={} tree={}", id, o.exit, hexs(&outs), hexs(&infos), warns, errs, hexs(&t))
}

pub fn scenario_line(id: &str, sc: &Scenario) -> String {
    let a = &sc.args;
    let b = |x: bool| if x { "1" } else { "0" };
    let mut s = format!("CLI {} A {} {} {} {} {} {} {} ", id, b(a.inplace), b(a.check), b(a.quiet), b(a.verbose), a.column, a.tab, b(a.reorder));
    let mut texts = vec![];
    match &a.cmd {
        Cmd::Files(ps) => {
            s += &format!("F {} ", ps.len());
            for p in ps {
                s += &hexs(p);
                s.push(' ');
            }
        }
        Cmd::Stdin(i) => {
            s += &format!("S {} ", hexs(i));
            texts.push(i.clone());
        }
        Cmd::FormatAll(None) => s += "D 0 ",
        Cmd::FormatAll(Some(d)) => s += &format!("D 1 {} ", hexs(if d == "." { "" } else { d })),
    }
    s += "T ";
    ser_entry(&sc.tree, None, &mut s);
    collect_texts(&sc.tree, &mut texts);
    // close the table under the library (a file named twice is re-read after it was rewritten)
    for _ in 0..3 {
        let mut more = vec![];
        for t in &texts {
            if let Some(r) = lib(a, t) {
                if !texts.contains(&r) && !more.contains(&r) {
                    more.push(r);
                }
            }
        }
        if more.is_empty() {
            break;
        }
        texts.extend(more);
    }
    s += &format!(" LIB {}", texts.len());
    for t in texts {
        s += &format!(" {} {}", hexs(&t), lib(a, &t).map(|r| hexs(&r)).unwrap_or("!".into()));
    }
    s
}

// ---------------------------------------------------------------------------------------------
// oracles (independent of the Lean model)
// ---------------------------------------------------------------------------------------------
fn get<'a>(e: &'a Entry, p: &str) -> Option<&'a Entry> {
    let mut cur = e;
    for comp in p.split('/').filter(|c| !c.is_empty() && *c != ".") {
        match cur {
            Entry::Dir(es) => cur = &es.iter().find(|(n, _)| n == comp)?.1,
            _ => return None,
        }
    }
    Some(cur)
}

fn has_typ_ext(name: &str) -> bool {
    Path::new(name).extension() == Some("typ".as_ref())
}

/// Eligible targets of format-all below `dir` (paths relative to the root): regular `*.typ`
/// files that are not hidden and not inside a hidden sub-directory; the directory itself may be
/// called anything.
fn eligible_all(e: &Entry, prefix: &str, depth: usize, name: &str, acc: &mut Vec<String>) {
    match e {
        Entry::File(_) => {
            if (depth == 0 || !name.starts_with('.')) && has_typ_ext(name) {
                acc.push(prefix.to_string());
            }
        }
        Entry::Dir(es) => {
            if depth > 0 && name.starts_with('.') {
                return;
            }
            for (n, c) in es {
                let p = if prefix.is_empty() { n.clone() } else { format!("{}/{}", prefix, n) };
                eligible_all(c, &p, depth + 1, n, acc);
            }
        }
        Entry::Symlink(_) => {}
    }
}

pub fn flat_files(e: &Entry, prefix: &str, acc: &mut Vec<(String, Vec<u8>)>) {
    match e {
        Entry::File(b) => acc.push((prefix.to_string(), b.clone())),
        Entry::Dir(es) => {
            for (n, c) in es {
                let p = if prefix.is_empty() { n.clone() } else { format!("{}/{}", prefix, n) };
                flat_files(c, &p, acc);
            }
        }
        _ => {}
    }
}

/// C11 at the front ends: non-empty, ends with a line feed, no line ends with a blank character.
fn hygienic(t: &str) -> bool {
    !t.is_empty() && t.ends_with('\n') && t.split('\n').all(|l| !l.ends_with(|c: char| c.is_whitespace()))
}

/// Returns failures as (property, kind, message).
pub fn oracles(sc: &Scenario, o: &Observed) -> Vec<(&'static str, &'static str, String)> {
    let a = &sc.args;
    let mut f = vec![];
    let usage_error = (a.inplace && a.check) || (a.inplace && matches!(a.cmd, Cmd::Stdin(_)));
    let mut before = vec![];
    flat_files(&sc.tree, "", &mut before);
    let mut after = vec![];
    flat_files(&o.tree, "", &mut after);
    let after: BTreeMap<String, Vec<u8>> = after.into_iter().collect();
    // the eligible inputs, in processing order, with what the library says
    let targets: Vec<String> = match &a.cmd {
        Cmd::Files(ps) => ps.clone(),
        Cmd::Stdin(_) => vec![],
        Cmd::FormatAll(d) => {
            let dir = d.clone().unwrap_or_default();
            let dir = if dir == "." { String::new() } else { dir };
            let mut acc = vec![];
            if let Some(e) = get(&sc.tree, &dir) {
                let name = dir.rsplit('/').next().unwrap_or("").to_string();
                eligible_all(e, &dir, 0, &name, &mut acc);
            }
            acc
        }
    };
    let mut io_error = false;
    let mut differs = false;
    let mut expect_write: BTreeMap<String, Vec<u8>> = BTreeMap::new();
    let mut expect_stdout = String::new();
    let mut inputs: Vec<Option<String>> = vec![];
    for t in &targets {
        match get(&sc.tree, t) {
            Some(Entry::File(b)) => match std::str::from_utf8(b) {
                Ok(s) => inputs.push(Some(s.to_string())),
                Err(_) => {
                    io_error = true;
                    inputs.push(None)
                }
            },
            _ => {
                io_error = true;
                inputs.push(None)
            }
        }
    }
    if let Cmd::Stdin(s) = &a.cmd {
        inputs.push(Some(s.clone()));
    }
    // C11: what a front end prints or leaves in a file for a well-formed input is hygienic text
    let mut all_wellformed = true;
    let mut wellformed_targets: Vec<String> = vec![];
    for (i, inp) in inputs.iter().enumerate() {
        if let Some(x) = inp {
            if lib(a, x).is_some() {
                if let Some(t) = targets.get(i) {
                    wellformed_targets.push(t.trim_start_matches("./").to_string());
                }
            } else {
                all_wellformed = false;
            }
        }
    }
    for (i, inp) in inputs.iter().enumerate() {
        if let Some(x) = inp {
            match lib(a, x) {
                Some(y) => {
                    if &y != x {
                        differs = true;
                        if let Some(t) = targets.get(i) {
                            expect_write.insert(t.trim_start_matches("./").to_string(), y.clone().into_bytes());
                        }
                    }
                    expect_stdout += &y;
                }
                None => expect_stdout += x,
            }
        }
    }
    if usage_error {
        for (p, b) in &before {
            if after.get(p) != Some(b) || *o.touched.get(p).unwrap_or(&false) {
                f.push(("C15", "usage", format!("usage error but {} changed", p)));
            }
        }
        if o.exit != 2 {
            f.push(("C14", "usage", format!("conflicting options accepted (exit {})", o.exit)));
        }
        return f;
    }
    if a.check {
        // C14
        for (p, b) in &before {
            if after.get(p) != Some(b) {
                f.push(("C14", "readonly", format!("--check changed the content of {}", p)));
            } else if *o.touched.get(p).unwrap_or(&false) {
                f.push(("C14", "readonly", format!("--check changed the modification time of {}", p)));
            }
        }
        for l in o.stdout.lines() {
            if !is_log_line(l) {
                f.push(("C14", "stdout", format!("--check printed something that is not a log line: {:?}", l)));
                break;
            }
        }
        let want = if differs || io_error { 1 } else { 0 };
        if o.exit != want {
            f.push(("C14", "exit", format!("--check exit status {} but {} expected (differs={}, io_error={})", o.exit, want, differs, io_error)));
        }
    } else {
        let writes = a.inplace || matches!(a.cmd, Cmd::FormatAll(_));
        for (p, b) in &before {
            let now = after.get(p);
            let exp = if writes { expect_write.get(p) } else { None };
            match exp {
                Some(y) => {
                    if now != Some(y) {
                        f.push(("C15", "write", format!("{} should have been rewritten with the formatted text", p)));
                        // C16: the in-place front ends must leave exactly the library's text
                        f.push(("C16", "write", format!("{} does not hold the text the library returns after the in-place run", p)));
                    }
                }
                None => {
                    if now != Some(b) {
                        f.push(("C15", "write", format!("{} must keep its bytes but changed", p)));
                    } else if *o.touched.get(p).unwrap_or(&false) {
                        f.push(("C15", "write", format!("{} must keep its modification time but was touched", p)));
                    }
                }
            }
        }
        if writes && o.exit == 0 {
            // C11: after a successful in-place run every well-formed input file holds hygienic text
            for p in &wellformed_targets {
                if let Some(bytes) = after.get(p) {
                    if let Ok(t) = std::str::from_utf8(bytes) {
                        if !hygienic(t) {
                            f.push(("C11", "cli-file", format!("{} is well-formed but does not hold hygienic text after the in-place run: {:?}", p, t.chars().take(80).collect::<String>())));
                        }
                    }
                }
            }
        }
        // C19: the request reaches every front end.  What a front end leaves (in the file, or on stdout for a
        // single input) for a well-formed input with import statements relates to the source as C19 demands of
        // the two settings: items in source order with the flag off, sorted with it on (the library's result
        // under the *other* setting stands for the other side of the comparison).
        if o.exit == 0 {
            let mut outs: Vec<(String, String)> = vec![];
            if writes {
                for (i, inp) in inputs.iter().enumerate() {
                    if let (Some(x), Some(t)) = (inp, targets.get(i)) {
                        if targets.iter().filter(|u| *u == t).count() != 1 {
                            continue;
                        }
                        let p = t.trim_start_matches("./").to_string();
                        if let Some(Ok(now)) = after.get(&p).map(|b| std::str::from_utf8(b)) {
                            outs.push((x.clone(), now.to_string()));
                        }
                    }
                }
            } else if inputs.len() == 1 {
                if let Some(x) = &inputs[0] {
                    outs.push((x.clone(), o.stdout.clone()));
                }
            }
            for (x, t) in outs {
                if !x.contains("import") || lib(a, &x).is_none() {
                    continue;
                }
                let other = crate::obs::format(&x, Cfg { tab: a.tab, width: a.column, blank: 2, reorder: !a.reorder });
                if let Ok(other) = other {
                    let r = if a.reorder { crate::obs::check_c19(&x, &other, &t) } else { crate::obs::check_c19(&x, &t, &other) };
                    if let Some(m) = r {
                        f.push(("C19", "cli-imports", format!("front end with reordering {}: {}", if a.reorder { "on" } else { "off" }, m)));
                    }
                }
            }
        }
        if writes {
            let want_fail = io_error;
            if (o.exit != 0) != want_fail {
                f.push(("C15", "exit", format!("exit status {} but io_error={}", o.exit, io_error)));
            }
        } else {
            // C11: the concatenation of results for well-formed inputs is hygienic
            if all_wellformed && !inputs.is_empty() && inputs.iter().all(|x| x.is_some()) && !hygienic(&o.stdout) {
                f.push(("C11", "cli-stdout", format!("the text printed for well-formed input is not hygienic: {:?}", o.stdout.chars().take(120).collect::<String>())));
            }
            // C16: plain mode prints exactly the library results, in order
            if o.stdout != expect_stdout {
                f.push(("C16", "stdout", format!("stdout differs from the library results: {:?} vs {:?}", o.stdout.chars().take(120).collect::<String>(), expect_stdout.chars().take(120).collect::<String>())));
            }
            if (o.exit != 0) != io_error {
                f.push(("C16", "exit", format!("exit status {} but io_error={}", o.exit, io_error)));
            }
        }
        if writes {
            // C16: what is written is the library result (covered by expect_write above)
        }
    }
    f
}

pub fn scenario_json(sc: &Scenario) -> String {
    let mut t = String::new();
    ser_entry(&sc.tree, None, &mut t);
    format!("root={} argv={:?} tree={}", sc.root_name, argv(&sc.args), t)
}

pub fn run(tier: &str, seed: u64, outdir: &str, bin: &str, prop: &str) {
    std::fs::create_dir_all(outdir).unwrap();
    let n: u64 = if tier == "thorough" { 40_000 } else { 2_500 };
    let mut idxs = vec![];
    crate::select("cli", CLI_U, n, seed, &mut idxs);
    let nt = 16usize;
    let chunk = (idxs.len() + nt - 1) / nt;
    let scratch_base = PathBuf::from(outdir).join("scratch");
    let results: Vec<(Stats, Vec<String>)> = std::thread::scope(|sc_| {
        let mut hs = vec![];
        for (ti, part) in idxs.chunks(chunk.max(1)).enumerate() {
            let scratch = scratch_base.join(format!("t{}", ti));
            let h = sc_.spawn(move || {
                let mut st = Stats::default();
                let mut fails = vec![];
                let f = std::fs::File::create(format!("{}/cases.{}.txt", outdir, ti)).unwrap();
                let mut w = std::io::BufWriter::new(f);
                let fe = std::fs::File::create(format!("{}/expected.{}.txt", outdir, ti)).unwrap();
                let mut we = std::io::BufWriter::new(fe);
                for c in part {
                    let sc = scenario(c.idx);
                    // two invocations in sequence: the second runs on the tree the first left
                    let mut cur = sc.clone();
                    for step in 0..2 {
                        let id = format!("{}.{}", c.idx, step);
                        let o = run_real(bin, &cur, &scratch);
                        st.evaluated += 1;
                        let key = scenario_json(&cur);
                        let h = crate::hash_str_pub(&key);
                        st.distinct.insert(h);
                        let shape = match (&cur.args.cmd, cur.args.check, cur.args.inplace) {
                            (Cmd::Files(_), true, _) => "files --check",
                            (Cmd::Files(_), _, true) => "files -i",
                            (Cmd::Files(_), _, _) => "files",
                            (Cmd::Stdin(_), true, _) => "stdin --check",
                            (Cmd::Stdin(_), _, _) => "stdin",
                            (Cmd::FormatAll(_), true, _) => "format-all --check",
                            (Cmd::FormatAll(_), _, _) => "format-all",
                        };
                        *st.by_gen.entry(shape.to_string()).or_default() += 1;
                        let relevant = match prop {
                            "C14" => cur.args.check,
                            "C15" => !cur.args.check && (cur.args.inplace || matches!(cur.args.cmd, Cmd::FormatAll(_))),
                            _ => true,
                        };
                        if relevant {
                            st.nontrivial.insert(h);
                        }
                        if st.samples.len() < 2 && relevant {
                            st.samples.push(key.chars().take(400).collect());
                        }
                        for (p, k, m) in oracles(&cur, &o) {
                            if p == prop {
                                st.failures += 1;
                                let mut j = fail_json(prop, "cli", c.idx, &key, Cfg { tab: cur.args.tab, width: cur.args.column, blank: 2, reorder: cur.args.reorder }, k, &m, &o.stdout);
                                j.pop();
                                j += &format!(",\"scenario\":{}}}", jstr(&format!("{} {}", c.idx, step)));
                                fails.push(j);
                                break;
                            }
                        }
                        writeln!(w, "{}", scenario_line(&id, &cur)).unwrap();
                        writeln!(we, "{}", result_line(&id, &cur, &o)).unwrap();
                        // next step: same invocation on the resulting tree (a second run is a no-op)
                        cur = Scenario { root_name: cur.root_name.clone(), tree: o.tree.clone(), args: cur.args.clone() };
                    }
                }
                let _ = std::fs::remove_dir_all(&scratch);
                w.flush().unwrap();
                we.flush().unwrap();
                (st, fails)
            });
            hs.push(h);
        }
        hs.into_iter().map(|h| h.join().unwrap()).collect()
    });
    let mut st = Stats::default();
    let mut of = std::fs::File::create(format!("{}/oracle.jsonl", outdir)).unwrap();
    for (s, fails) in results {
        st.merge_pub(s);
        for f in fails {
            writeln!(of, "{}", f).unwrap();
        }
    }
    let _ = std::fs::remove_dir_all(&scratch_base);
    std::fs::write(format!("{}/stats.json", outdir), st.to_json()).unwrap();
    println!("{}", st.to_json());
}

/// Replay one scenario: `vh cli1 <bin> "<idx> <step>"`.
pub fn replay(bin: &str, spec: &str) {
    let mut it = spec.split_whitespace();
    let idx: u64 = it.next().and_then(|x| x.parse().ok()).unwrap_or(0);
    let step: usize = it.next().and_then(|x| x.parse().ok()).unwrap_or(0);
    let scratch = std::env::temp_dir().join(format!("vh-cli-replay-{}", std::process::id()));
    let mut cur = scenario(idx);
    let mut failed = false;
    for s in 0..=step {
        let o = run_real(bin, &cur, &scratch);
        if s == step {
            println!("{}", scenario_json(&cur));
            println!("exit={} stdout={:?} stderr={:?}", o.exit, o.stdout, o.stderr);
            for (p, k, m) in oracles(&cur, &o) {
                println!("FAIL {} {} {}", p, k, m);
                failed = true;
            }
        }
        cur = Scenario { root_name: cur.root_name.clone(), tree: o.tree.clone(), args: cur.args.clone() };
    }
    let _ = std::fs::remove_dir_all(&scratch);
    std::process::exit(if failed { 1 } else { 0 });
}
