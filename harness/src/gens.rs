//! Case universes.  A case is `(generator, index)`; its content is a pure function of that
//! pair.  `VERIF_SEED` only selects indices.
use crate::util::{mix, Rng};
use std::path::{Path, PathBuf};

#[derive(Clone, Copy, Debug, PartialEq, Eq)]
pub struct Cfg {
    pub tab: usize,
    pub width: usize,
    pub blank: usize,
    pub reorder: bool,
}
impl Cfg {
    pub fn to_config(self) -> typstyle_core::Config {
        let mut c = typstyle_core::Config::new().with_width(self.width).with_tab_spaces(self.tab);
        c.blank_lines_upper_bound = self.blank;
        c.reorder_import_items = self.reorder;
        c
    }
    pub fn default() -> Self {
        Cfg { tab: 2, width: 80, blank: 2, reorder: false }
    }
}

pub struct Case {
    pub gen: &'static str,
    pub idx: u64,
    pub src: String,
    pub cfg: Cfg,
}

pub fn rand_cfg(r: &mut Rng) -> Cfg {
    let width = match r.below(12) {
        0 => 0,
        1 => 1,
        2 => r.below(12),
        3 | 4 => 10 + r.below(30),
        5 | 6 => 40 + r.below(40),
        7 => 80,
        8 => 120,
        9 => 80 + r.below(60),
        10 => 100000,
        _ => r.below(100),
    };
    let tab = match r.below(10) {
        0 => 1,
        1 | 2 | 3 => 2,
        4 => 3,
        5 | 6 => 4,
        7 => 8,
        _ => 1 + r.below(8),
    };
    let blank = match r.below(6) {
        0 => 0,
        1 => 1,
        2 => 3,
        _ => 2,
    };
    Cfg { tab, width, blank, reorder: r.below(4) == 0 }
}

// ---------------------------------------------------------------------------------------------
// G-fix: repository fixtures, whole files and blank-line separated chunks
// ---------------------------------------------------------------------------------------------

pub struct Fixtures {
    pub items: Vec<(String, String)>, // (name, source)
}

fn walk(p: &Path, files: &mut Vec<PathBuf>) {
    let Ok(rd) = std::fs::read_dir(p) else { return };
    for e in rd.flatten() {
        let p = e.path();
        if p.is_dir() {
            walk(&p, files)
        } else if p.extension().map(|x| x == "typ").unwrap_or(false) {
            files.push(p)
        }
    }
}

impl Fixtures {
    pub fn load(root: &str, with_chunks: bool) -> Fixtures {
        let mut files = vec![];
        walk(Path::new(root), &mut files);
        files.sort();
        let mut items = vec![];
        for f in files {
            let Ok(src) = std::fs::read_to_string(&f) else { continue };
            let name = f.strip_prefix(root).unwrap_or(&f).display().to_string();
            if with_chunks && src.len() < 60000 {
                // chunks: maximal runs of lines separated by blank lines
                let mut k = 0;
                for chunk in src.split("\n\n") {
                    if chunk.trim().is_empty() || chunk.len() == src.len() {
                        continue;
                    }
                    items.push((format!("{}#{}", name, k), chunk.to_string()));
                    k += 1;
                }
            }
            items.push((name, src));
        }
        Fixtures { items }
    }
}

pub const FIX_CFGS: usize = 24;
pub fn fix_cfg(k: usize) -> Cfg {
    // a fixed table: the four configurations the suite itself uses come first
    let widths = [0usize, 40, 80, 120, 1, 17, 33, 60, 100000];
    let tabs = [2usize, 4, 1, 3, 8];
    match k {
        0 => Cfg { tab: 2, width: 0, blank: 2, reorder: false },
        1 => Cfg { tab: 2, width: 40, blank: 2, reorder: false },
        2 => Cfg { tab: 2, width: 80, blank: 2, reorder: false },
        3 => Cfg { tab: 2, width: 120, blank: 2, reorder: false },
        _ => {
            let mut r = Rng::new(mix(0xF1C5, k as u64));
            Cfg {
                tab: tabs[r.below(tabs.len())],
                width: widths[r.below(widths.len())],
                blank: [2, 2, 0, 1, 3][r.below(5)],
                reorder: r.below(3) == 0,
            }
        }
    }
}

// ---------------------------------------------------------------------------------------------
// G-gram: constructive grammar with trivia at token gaps
// ---------------------------------------------------------------------------------------------

pub struct G {
    pub r: Rng,
    /// trivia kinds allowed
    pub lc: bool,
    pub bc: bool,
    pub off: bool,
    pub used: Vec<&'static str>,
    /// probability (out of 20) that a gap gets non-empty trivia
    pub density: usize,
    /// "uniform" documents: every code gap gets this same trivia (blank lines at *every* gap of a
    /// construct at once, e.g. around a comma: shapes that independent draws almost never produce)
    pub uniform: Option<&'static str>,
}

impl G {
    pub fn new(seed: u64) -> G {
        let mut r = Rng::new(seed);
        let lc = r.below(3) != 0;
        let bc = r.below(3) != 0;
        let off = r.below(6) == 0;
        let density = [2, 5, 10][r.below(3)];
        let uniform = match r.below(16) {
            0 => Some("\n\n"),
            1 => Some("\n"),
            2 => Some("\n\n\n"),
            3 => Some(" /* u */ "),
            _ => None,
        };
        G { r, lc, bc, off, used: vec![], density, uniform }
    }
    /// trivia in code (between tokens inside delimiters or where a newline is harmless)
    pub fn t(&mut self) -> String {
        if let Some(u) = self.uniform {
            if self.r.below(8) != 0 {
                return u.into();
            }
        }
        if self.r.below(20) >= self.density {
            return "".into();
        }
        match self.r.below(12) {
            0 | 1 | 2 => " ".into(),
            3 => "\n".into(),
            4 => "\n\n".into(),
            5 => "  ".into(),
            6 | 7 => {
                if self.bc {
                    self.used.push("bc");
                    " /* c */ ".into()
                } else {
                    " ".into()
                }
            }
            8 => {
                if self.bc {
                    self.used.push("bcml");
                    self.r.pick(&["/* a\n   b */", "/* a\n * b\n */", "/*\n  x\n    y\n*/", "/* a\n \n   b */", "/*\n    p\n  \n    q\n*/", "/* t\n\tu\n\t v */", "/* a\n\n  b\n */"]).into()
                } else {
                    "".into()
                }
            }
            9 => {
                if self.off {
                    self.used.push("off");
                    self.r.pick(&[" /* @typstyle off */ ", "// @typstyle off\n", " /* @typstyle off*/ ", "/*@typstyle off*/", "// @typstyle off: hand-aligned\n", "// keep: @typstyle off.\n"]).into()
                } else {
                    " ".into()
                }
            }
            _ => {
                if self.lc {
                    self.used.push("lc");
                    self.r.pick(&[" // lc\n", "// x y\n", " //\n", "\n// own line\n", " // one\n // two\n", " /* a */ // b\n", "\n// p\n// q\n"]).into()
                } else {
                    "\n".into()
                }
            }
        }
    }
    /// trivia that must not contain a newline (after `let x =` etc. a newline is fine in typst code
    /// inside `#…` only within delimiters; this one is for top-level embedded code)
    pub fn ts(&mut self) -> String {
        if self.r.below(20) >= self.density {
            return "".into();
        }
        match self.r.below(5) {
            0 | 1 => " ".into(),
            2 => "  ".into(),
            _ => {
                if self.bc {
                    self.used.push("bc");
                    " /* c */ ".into()
                } else {
                    " ".into()
                }
            }
        }
    }
    pub fn ident(&mut self) -> String {
        self.r.pick(&["x", "y", "foo", "long_name_here", "a1", "table", "grid", "bar-baz", "f"]).into()
    }
    pub fn lit(&mut self) -> String {
        self.r
            .pick(&[
                "1", "2.5", "10pt", "\"s\"", "none", "auto", "true", "1em", "50%", "0xff", "1e3", "\"a b\"", "\"q\\\"x\"",
                "3.5cm", "false", "90deg", "1fr",
            ])
            .into()
    }
    pub fn expr(&mut self, d: usize) -> String {
        let k = if d == 0 { self.r.below(3) } else { self.r.below(32) };
        match k {
            0 => self.ident(),
            1 | 2 => self.lit(),
            3 => {
                self.used.push("array");
                let n = self.r.below(4);
                let mut s = format!("({}", self.t());
                for i in 0..n {
                    if self.r.below(10) == 0 {
                        s += "..";
                    }
                    s += &self.expr(d - 1);
                    s += &self.t();
                    if i + 1 < n || n == 1 || self.r.below(2) == 0 {
                        s += ",";
                        s += &self.t();
                    }
                }
                s + ")"
            }
            4 => {
                self.used.push("dict");
                let n = 1 + self.r.below(3);
                let mut s = format!("({}", self.t());
                for i in 0..n {
                    if self.r.below(6) == 0 {
                        s += "\"k\"";
                    } else {
                        s += &self.ident();
                    }
                    s += &self.t();
                    s += ":";
                    s += &self.t();
                    s += &self.expr(d - 1);
                    s += &self.t();
                    if i + 1 < n || self.r.below(2) == 0 {
                        s += ",";
                        s += &self.t();
                    }
                }
                s + ")"
            }
            5 => {
                self.used.push("paren");
                format!("({}{}{})", self.t(), self.expr(d - 1), self.t())
            }
            6 | 7 => {
                self.used.push("call");
                let n = self.r.below(4);
                let mut s = format!("{}({}", self.ident(), self.t());
                for i in 0..n {
                    if self.r.below(3) == 0 {
                        s += &self.ident();
                        s += &self.t();
                        s += ":";
                        s += &self.t();
                    } else if self.r.below(8) == 0 {
                        s += "..";
                    }
                    s += &self.expr(d - 1);
                    s += &self.t();
                    if i + 1 < n || self.r.below(3) == 0 {
                        s += ",";
                        s += &self.t();
                    }
                }
                s += ")";
                if self.r.below(4) == 0 {
                    s += &format!("[{}]", self.markup_inline(d - 1));
                }
                s
            }
            8 | 24 => {
                self.used.push("binary");
                let op = self.r.pick(&["+", "-", "*", "/", "==", "!=", "<", ">=", "and", "or", "in", "not in"]);
                format!("{}{} {} {}{}", self.expr(d - 1), self.t(), op, self.t(), self.expr(d - 1))
            }
            9 => {
                self.used.push("unary");
                let op = self.r.pick(&["-", "+", "not "]);
                format!("{}{}", op, self.expr(d - 1))
            }
            10 => {
                self.used.push("field");
                format!("{}{}.{}{}", self.chain_head(d - 1), self.t(), self.t(), self.ident())
            }
            11 | 25 => {
                self.used.push("chain");
                let mut s = self.chain_head(d - 1);
                for _ in 0..(2 + self.r.below(3)) {
                    s += &self.t();
                    s += ".";
                    s += &self.ident();
                    if self.r.below(2) == 0 {
                        s += &format!("({})", self.expr(d - 1));
                    }
                }
                s
            }
            12 => {
                self.used.push("closure");
                let p = match self.r.below(6) {
                    0 => self.ident(),
                    1 => "_".into(),
                    2 => format!("({}{}, {}: {})", self.t(), self.ident(), self.ident(), self.lit()),
                    3 => format!("(({}, {}), ..{})", self.ident(), self.ident(), self.ident()),
                    4 => format!("({}{},{} {})", self.t(), self.pattern(2), self.t(), self.pattern(2)),
                    _ => "(..args)".into(),
                };
                format!("{}{} => {}{}", p, self.t(), self.t(), self.expr(d - 1))
            }
            13 => {
                self.used.push("codeblock");
                let n = self.r.below(3);
                let mut s = format!("{{{}", self.t());
                for _ in 0..n {
                    s += &self.stmt(d - 1);
                    s += self.r.pick(&["\n", ";", "\n\n", "; ", "\n\n\n\n"]);
                    s += &self.t();
                }
                s + "}"
            }
            14 => {
                self.used.push("content");
                format!("[{}]", self.markup_inline(d - 1))
            }
            15 => {
                self.used.push("if");
                let mut s =
                    format!("if {}{}{} {{ {} }}", self.t(), self.expr(d - 1), self.t(), self.expr(d - 1));
                if self.r.below(2) == 0 {
                    s += &format!("{} else {}{{ {} }}", self.t(), self.t(), self.expr(d - 1));
                } else if self.r.below(3) == 0 {
                    s += &format!(" else if {} [{}]", self.expr(d - 1), self.markup_inline(d - 1));
                }
                s
            }
            16 => {
                self.used.push("math");
                format!("${}$", self.math(d - 1))
            }
            17 => {
                self.used.push("str");
                self.r.pick(&["\"a b\"", "\"multi\nline\"", "\"\"", "\"tab\\t\""]).into()
            }
            18 => {
                self.used.push("context");
                format!("context {}{}", self.t(), self.expr(d - 1))
            }
            19 => {
                self.used.push("destruct-spread");
                format!("(..{}, {})", self.ident(), self.expr(d - 1))
            }
            20 => {
                self.used.push("raw");
                self.r.pick(&["`raw`", "```rs let x = 1;```", "```\nblock\n  ind\n```", "` `"]).into()
            }
            21 => {
                self.used.push("label");
                "<lbl>".into()
            }
            22 => {
                self.used.push("table");
                format!(
                    "table({}columns: 2,{} [a], [b],{} [c], [d]{})",
                    self.t(),
                    self.t(),
                    self.t(),
                    self.t()
                )
            }
            23 => {
                self.used.push("for");
                let pat = match self.r.below(4) {
                    0 => format!("({}, {})", self.ident(), self.ident()),
                    1 => self.pattern(2),
                    _ => self.ident(),
                };
                format!("for {} in {}{} {{ {} }}", pat, self.t(), self.expr(d - 1), self.expr(d - 1))
            }
            26 => {
                self.used.push("while");
                format!("while {}{} {{ {} }}", self.t(), self.expr(d - 1), self.stmt(d - 1))
            }
            27 => {
                self.used.push("call-content");
                format!("{}[{}][{}]", self.ident(), self.markup_inline(d - 1), self.markup_inline(d - 1))
            }
            31 => {
                // operator chains: three to five operands joined by operators of one precedence class
                // (so that they form one chain), every sequence of operators of the class
                self.used.push("op-chain");
                let classes: [&[&str]; 5] = [
                    &["in", "not in", "==", "!=", "<", "<=", ">", ">="],
                    &["+", "-"],
                    &["*", "/"],
                    &["and"],
                    &["or"],
                ];
                let ops = classes[self.r.below(classes.len())];
                let n = 3 + self.r.below(3);
                let mut s = self.expr(d.min(2) - 1);
                for _ in 1..n {
                    let op = *self.r.pick(&ops.iter().collect::<Vec<_>>());
                    s += &format!("{} {} {}{}", self.t(), op, self.t(), self.expr(d.min(2) - 1));
                }
                s
            }
            30 => {
                // the compact `ident.field.field(args)` layout: plain identifiers, one call, last;
                // the links laid out in the source in every way (tight, padded, one per line, deep)
                self.used.push("plain-chain");
                let gap: &str = self.r.pick(&["", "", " ", "\n  ", "\n        ", "\n                "]);
                let mut s = self.ident();
                for _ in 0..(2 + self.r.below(3)) {
                    s += gap;
                    s += ".";
                    s += &self.ident();
                }
                let n = 1 + self.r.below(4);
                let args: Vec<String> = (0..n).map(|_| self.expr(d - 1)).collect();
                format!("{}({})", s, args.join(", "))
            }
            28 => {
                self.used.push("assign");
                let op = self.r.pick(&["=", "+=", "-="]);
                format!("{} {} {}", self.ident(), op, self.expr(d - 1))
            }
            _ => {
                self.used.push("include");
                "include \"a.typ\"".into()
            }
        }
    }
    fn chain_head(&mut self, d: usize) -> String {
        match self.r.below(4) {
            0 if d > 0 => format!("{}({})", self.ident(), self.expr(d - 1)),
            1 if d > 0 => format!("({})", self.expr(d - 1)),
            _ => self.ident(),
        }
    }
    /// A binding pattern: identifier, placeholder, parenthesised pattern or destructuring with
    /// positional, named (`k: pat`, `k: _`) and sink (`..`, `..rest`) items, nested.
    pub fn pattern(&mut self, d: usize) -> String {
        match self.r.below(if d == 0 { 3 } else { 8 }) {
            0 | 1 => self.ident(),
            2 => "_".into(),
            3 => format!("({})", self.pattern(d - 1)),
            _ => {
                self.used.push("destructuring");
                let n = self.r.below(4);
                let mut items: Vec<String> = vec![];
                let mut spread = false;
                for _ in 0..=n {
                    let it = match self.r.below(7) {
                        0 | 1 => self.pattern(d - 1),
                        2 => format!("{}:{}{}", self.ident(), self.t(), self.pattern(d - 1)),
                        3 => format!("{}: _", self.ident()),
                        4 if !spread => {
                            spread = true;
                            format!("..{}", self.ident())
                        }
                        5 if !spread => {
                            spread = true;
                            "..".into()
                        }
                        _ => self.ident(),
                    };
                    items.push(it);
                }
                let trail = if items.len() == 1 && !items[0].starts_with("..") && !items[0].contains(':') {
                    ","
                } else {
                    self.r.pick(&["", ",", ", "])
                };
                let sep = format!(",{}", self.t());
                format!("({}{}{}{})", self.t(), items.join(&sep), trail, self.t())
            }
        }
    }
    pub fn stmt(&mut self, d: usize) -> String {
        match self.r.below(12) {
            0 | 1 | 2 => {
                self.used.push("let");
                let p = match self.r.below(8) {
                    6 | 7 => self.pattern(2),
                    0 => format!("({}, {})", self.ident(), self.ident()),
                    1 => format!("{}({}, {}: {})", self.ident(), self.ident(), self.ident(), self.lit()),
                    2 => format!("({}: {}, ..{})", self.ident(), self.ident(), self.ident()),
                    _ => self.ident(),
                };
                format!("let {}{} = {}{}", p, self.ts(), self.t(), self.expr(d))
            }
            3 => {
                self.used.push("set");
                let mut s = format!(
                    "set {}({}{}: {})",
                    self.r.pick(&["text", "par", "page"]),
                    self.t(),
                    self.ident(),
                    self.expr(d)
                );
                match self.r.below(8) {
                    0 | 1 => s += &format!(" if {}", self.expr(d.min(1))),
                    2 => s += &format!("[{}]", self.markup_inline(d.min(1))),
                    3 => s = format!("set {}[{}]", self.ident(), self.markup_inline(d.min(1))),
                    _ => {}
                }
                s
            }
            4 => {
                self.used.push("show");
                format!(
                    "show {}{}: {}{}",
                    self.r.pick(&["heading", "\"x\"", "", "heading.where(level: 1)"]),
                    self.ts(),
                    self.ts(),
                    self.expr(d)
                )
            }
            5 => self.import(),
            6 => {
                self.used.push("return");
                if self.r.below(4) == 0 {
                    "return".into()
                } else {
                    format!("return {}", self.expr(d))
                }
            }
            7 => {
                self.used.push("destruct-assign");
                if self.r.below(2) == 0 {
                    format!("({}, {}) = ({}, {})", self.ident(), self.ident(), self.lit(), self.lit())
                } else {
                    format!("({}: {}, {}, ..) = {}", self.ident(), self.pattern(1), self.pattern(1), self.ident())
                }
            }
            _ => self.expr(d),
        }
    }
    pub fn import(&mut self) -> String {
        self.used.push("import");
        let n = 1 + self.r.below(4);
        let mut s = format!("import \"m.typ\"{}", self.ts());
        match self.r.below(8) {
            0 => return s,
            1 => return s + " as m",
            2 => return s + ": *",
            _ => {}
        }
        s += ":";
        s += &self.ts();
        let par = self.r.below(2) == 0;
        if par {
            s += "(";
            s += &self.t();
        }
        for i in 0..n {
            s += &self.ident();
            if self.r.below(5) == 0 {
                s += ".";
                s += &self.ident();
            }
            if self.r.below(3) == 0 {
                s += " as ";
                s += &self.ident();
            }
            if i + 1 < n {
                s += ",";
                s += &if par { self.t() } else { " ".into() };
            } else if par && self.r.below(2) == 0 {
                s += ",";
            }
        }
        if par {
            s += &self.t();
            s += ")";
        }
        s
    }
    pub fn markup_inline(&mut self, d: usize) -> String {
        let mut s = String::new();
        s += self.r.pick(&["", " ", "\n"]);
        for _ in 0..(1 + self.r.below(3)) {
            match self.r.below(10) {
                0 | 1 | 2 => {
                    s += self.r.pick(&[
                        "text",
                        "more words here",
                        "a *strong* b",
                        "_emph_",
                        "https://x.org",
                        "@ref",
                        "\\#esc",
                        "x~y",
                        "-- dash",
                        "\"quoted\"",
                        "<lab>",
                        "@ref[supp]",
                        "@ref[]",
                        "@ref[ ]",
                        "@ref[]text",
                        "@ref[a][b]",
                        "@ref.",
                        "@a:b-c[]-d",
                        "#x _1",
                        "a \\\nb",
                        "`raw`",
                        "don't",
                    ])
                }
                3 | 4 => {
                    if d > 0 {
                        s += "#";
                        s += &self.expr(d - 1);
                        if self.r.below(3) == 0 {
                            s += ";";
                        }
                    }
                }
                5 => {
                    if d > 0 {
                        s += &format!("${}$", self.math(d - 1));
                    }
                }
                6 if self.r.below(2) == 0 => {
                    // embedded statements and calls whose content holds only code, inside a prose line
                    if d > 0 {
                        self.used.push("embedded-stmt");
                        let a = self.expr(d - 1);
                        let b = self.expr(d - 1);
                        let i = self.ident();
                        s += &match self.r.below(8) {
                            0 => format!("#let v = {} * {}", a, b),
                            1 => format!("#if {} == {} and {} {{ {} }}", a, b, i, i),
                            2 => format!("#while {} < {} {{ {} }}", i, a, b),
                            3 => format!("#box[#rect(width: {}, height: {})]", a, b),
                            4 => format!("@ref[#numbering(\"1.1\", {}, {})]", a, b),
                            5 => format!("#strong[#text(fill: red, size: {})[{}]]", a, i),
                            6 => format!("#{}({}, [ #if {} == {} and {} {{ {} }} else {{ none }} ])", i, a, a, b, i, b),
                            _ => format!("#figure(caption: [ #let q = {} + {} ])", a, b),
                        };
                    }
                }
                6 => {
                    if self.bc {
                        self.used.push("bc-markup");
                        s += "/* mc */"
                    }
                }
                7 => {
                    if self.lc {
                        self.used.push("lc-markup");
                        s += "// mlc\n"
                    }
                }
                _ => s += "word",
            }
            s += self.r.pick(&[" ", " ", "", "\n", "\n\n"]);
        }
        s
    }
    pub fn math(&mut self, d: usize) -> String {
        let mut s = String::new();
        s += self.r.pick(&["", " ", "\n"]);
        for _ in 0..(1 + self.r.below(4)) {
            match self.r.below(16) {
                0 | 1 => s += self.r.pick(&["a", "x", "alpha", "1", "+", "=", "\"t\"", "&", "\\ ", "->", "dif x", "1.5"]),
                2 => s += "x_1^2",
                3 => s += "a/b",
                4 => {
                    if d > 0 {
                        s += &format!("({})", self.math(d - 1));
                    }
                }
                5 => {
                    if d > 0 {
                        s += &format!("sin({})", self.math(d - 1));
                    }
                }
                6 => {
                    if d > 0 {
                        // cells: plain math, bare hashed code, nested 2-D calls
                        let mut cell = |g: &mut G| -> String {
                            match g.r.below(8) {
                                0 => "#a".into(),
                                1 => "#f(x)".into(),
                                2 => "mat(1; 2)".into(),
                                3 => "mat(a, b; c, d)".into(),
                                _ => g.math(0),
                            }
                        };
                        let (a, b, c, e) = (cell(self), cell(self), cell(self), cell(self));
                        s += &format!("mat({}, {}; {}, {})", a, b, c, e);
                    }
                }
                7 => {
                    if d > 0 {
                        s += "#";
                        s += &self.ident();
                    }
                }
                8 => s += "sqrt(x)",
                9 => s += "f'",
                10 => {
                    if self.bc {
                        self.used.push("bc-math");
                        s += "/* m */"
                    }
                }
                11 => s += self.r.pick(&["[a, b]", "{x}", "|y|", "lr((a))"]),
                12 => s += self.r.pick(&["√x", "x_(i j)", "a^(-1)", "vec(1, 2)", "f(x, y)", "cases(a &\"if\" b, c)", "#f(x)[c]", "#g[a][b]", "vec(#f(x)[c], b)", "mat(#g[a][b]; #h(1, 2))", "#f(x)"]),
                14 => {
                    // attachments with every kind of operand in every position, blanks before the marks
                    let ops = ["x", "#x", "#x.y", "(a b)", "#f(x)", "#true", "#none", "sum", "a'", "\"t\"", "#(1)"];
                    let sp = ["", " ", ""];
                    let mut t = String::from(self.r.pick(&ops));
                    let first_sub = self.r.below(2) == 0;
                    for k in 0..(1 + self.r.below(2)) {
                        t += self.r.pick(&sp);
                        t += if (k == 0) == first_sub { "_" } else { "^" };
                        t += self.r.pick(&sp);
                        t += self.r.pick(&ops);
                    }
                    s += &t;
                }
                13 => s += self.r.pick(&["#x;", "1/#x;", "x_#y;", "√#x;", "#x _1", "#x.y _1", "mat(a #x ; b)", "mat(#x;; b)", "mat(n: #x ; b)", "#x;^2", "a_\\ ", "{ \\ ", "#(x)", "#(1) x", "vec(a, #x)", "f(#x ; y)"]),
                _ => s += "y",
            }
            s += self.r.pick(&[" ", " ", "", "\n", "  "]);
        }
        s
    }
    /// A structured list: markers, continuation lines, nested items (also on the marker's line).
    pub fn list_block(&mut self, indent: usize, d: usize) -> String {
        let mut s = String::new();
        let n = 1 + self.r.below(3);
        let marker = self.r.pick(&["- ", "+ ", "/ Term: ", "1. ", "-  "]).to_string();
        for _ in 0..n {
            s += &" ".repeat(indent);
            s += &marker;
            let body_col = indent + marker.len();
            if d > 0 && self.r.below(6) == 0 {
                // a nested item on the marker's line
                let inner = self.list_block(body_col, d - 1);
                s += inner.trim_start();
                continue;
            }
            s += self.r.pick(&["item", "some words", "a *b* c", "#f(a, b)", "$x$", "x #g[y] z", ""]);
            s += "\n";
            for _ in 0..self.r.below(3) {
                match self.r.below(4) {
                    0 => {
                        s += &" ".repeat(body_col + self.r.below(3));
                        s += self.r.pick(&["continued", "more #h(1em) text", "$ y $", "#let q = (1,\n 2)"]);
                        s += "\n";
                    }
                    1 if d > 0 => {
                        let extra = self.r.below(2);
                        s += &self.list_block(body_col + extra, d - 1)
                    }
                    2 => s += "\n",
                    _ => {
                        s += &" ".repeat(body_col);
                        s += "tail line\n";
                    }
                }
            }
        }
        s
    }
    pub fn doc(&mut self) -> String {
        let mut s = String::new();
        for _ in 0..(1 + self.r.below(4)) {
            match self.r.below(12) {
                0 | 1 | 2 | 3 => {
                    s += "#";
                    s += &self.stmt(3);
                    s += "\n";
                }
                4 => {
                    s += &self.markup_inline(2);
                    s += "\n";
                }
                5 => {
                    self.used.push("heading");
                    s += self.r.pick(&["= ", "== ", "=== "]);
                    s += "Heading ";
                    s += &self.markup_inline(1).replace('\n', " ");
                    s += "\n";
                }
                6 if self.r.below(2) == 0 => {
                    self.used.push("list-struct");
                    s += &self.list_block(0, 2);
                }
                6 => {
                    self.used.push("list");
                    s += "- item ";
                    s += &self.markup_inline(1).replace("\n\n", "\n").replace("// mlc\n", "");
                    s += "\n  - nested\n    more\n";
                }
                7 => {
                    self.used.push("enum");
                    s += "+ one\n+ two ";
                    s += &self.markup_inline(1).replace("\n\n", " ").replace("// mlc\n", "");
                    s += "\n";
                }
                8 => {
                    self.used.push("term");
                    s += "/ Term: desc ";
                    s += "\n";
                }
                9 => {
                    self.used.push("blockeq");
                    s += &format!("$ {} $\n", self.math(2));
                }
                10 => {
                    if self.lc {
                        self.used.push("lc-top");
                        s += "// top comment\n";
                    }
                    if self.off && self.r.below(2) == 0 {
                        self.used.push("off-top");
                        s += "// @typstyle off\n";
                    }
                }
                _ => {
                    s += "#";
                    s += &self.expr(3);
                    s += "\n";
                }
            }
            s += self.r.pick(&["", "\n", "\n\n", "\n\n\n"]);
        }
        s
    }
}

pub const GRAM_U: u64 = 1_000_000;
pub fn gram_case(idx: u64) -> (String, Cfg, Vec<&'static str>) {
    let mut g = G::new(mix(0x6A4D, idx));
    let src = g.doc();
    let cfg = rand_cfg(&mut g.r);
    (src, cfg, g.used)
}

// ---------------------------------------------------------------------------------------------
// G-nl: generated documents in other line-ending styles (CRLF, bare CR, VT, FF, NEL, LS, PS)
// ---------------------------------------------------------------------------------------------
pub const NL_U: u64 = 300_000;
pub fn nl_case(idx: u64) -> (String, Cfg, Vec<&'static str>) {
    let mut r = Rng::new(mix(0x11E, idx));
    let (src, cfg, used) = gram_case(r.next() % GRAM_U);
    let styles = ["\r\n", "\r", "\u{2028}", "\u{85}", "\u{0b}", "\u{0c}", "\u{2029}", "\r", "\r\n"];
    let nl = styles[r.below(styles.len())];
    let out = if r.below(4) == 0 {
        // mixed: only some line ends are replaced
        let mut o = String::new();
        for ch in src.chars() {
            if ch == '\n' && r.below(2) == 0 {
                o += nl;
            } else {
                o.push(ch);
            }
        }
        o
    } else {
        src.replace('\n', nl)
    };
    (out, cfg, used)
}

// ---------------------------------------------------------------------------------------------
// G-exh: every template x every gap x every trivia kind (single insertion)
// ---------------------------------------------------------------------------------------------

/// `¦` marks a gap where trivia may be inserted.
pub const TEMPLATES: &[&str] = &[
    "#let¦ x¦ =¦ (¦1¦,¦ 2¦,¦ 3¦)\n",
    "#let¦ f¦(¦a¦,¦ b¦:¦ 2¦,¦ ..¦c¦)¦ =¦ a¦ +¦ b\n",
    "#let¦ (¦a¦,¦ b¦)¦ =¦ (¦1¦,¦ 2¦)\n",
    "#let¦ (¦a¦:¦ x¦,¦ ..¦r¦)¦ =¦ d\n",
    "#f¦(¦x¦,¦ y¦:¦ 1¦,¦ ..¦z¦)\n",
    "#f¦(¦x¦)¦[¦c¦]\n",
    "#(¦a¦:¦ 1¦,¦ b¦:¦ (¦2¦,¦)¦)\n",
    "#(¦:¦)\n",
    "#(¦1¦,¦)\n",
    "#(¦a¦ +¦ b¦ *¦ c¦ -¦ d¦)\n",
    "#(¦a¦ not¦ in¦ b¦ and¦ c¦ or¦ d¦)\n",
    "#(¦-¦x¦)\n",
    "#(¦not¦ x¦)\n",
    "#a¦.¦b¦.¦c¦(¦1¦)¦.¦d\n",
    "#{¦\n  a¦.¦b¦(¦)¦.¦c¦(¦)¦\n}\n",
    "#(¦x¦)¦ =>¦ x¦ +¦ 1\n",
    "#let¦ g¦ =¦ (¦x¦,¦ y¦)¦ =>¦ {¦ x¦ }\n",
    "#{¦\n  let¦ a¦ =¦ 1¦;¦ let¦ b¦ =¦ 2¦\n  a¦ +¦ b¦\n}\n",
    "#if¦ a¦ {¦ b¦ }¦ else¦ if¦ c¦ {¦ d¦ }¦ else¦ {¦ e¦ }\n",
    "#while¦ a¦ <¦ 3¦ {¦ a¦ +=¦ 1¦ }\n",
    "#for¦ x¦ in¦ xs¦ {¦ x¦ }\n",
    "#for¦ (¦k¦,¦ v¦)¦ in¦ d¦ [¦c¦]\n",
    "#set¦ text¦(¦size¦:¦ 1pt¦)¦ if¦ c\n",
    "#show¦ heading¦:¦ it¦ =>¦ it\n",
    "#show¦:¦ f\n",
    "#show¦ \"a\"¦:¦ [¦b¦]\n",
    "#import¦ \"m.typ\"¦:¦ a¦,¦ b¦ as¦ c¦,¦ d¦.¦e\n",
    "#import¦ \"m.typ\"¦:¦ (¦a¦,¦ b¦ as¦ c¦,¦)\n",
    "#import¦ \"m.typ\"¦ as¦ m\n",
    "#import¦ \"m.typ\"¦:¦ *\n",
    "#include¦ \"a.typ\"\n",
    "#context¦ {¦ a¦ }\n",
    "#{¦ return¦ x¦ }\n",
    "#{¦ break¦;¦ continue¦ }\n",
    "#(¦a¦,¦ b¦)¦ =¦ (¦b¦,¦ a¦)\n",
    "#f¦(¦..¦a¦,¦ b¦)\n",
    "#table¦(¦columns¦:¦ 2¦,¦ [a]¦,¦ [b]¦,¦ [c]¦,¦ [d]¦)\n",
    "#f¦(¦(¦x¦)¦ =>¦ y¦,¦ [¦z¦]¦)\n",
    "#{¦\n  (¦x¦)¦\n}\n",
    "#{¦\n  ((¦x¦))¦\n}\n",
    "#let¦ x¦ =¦ if¦ a¦ {¦ 1¦ }¦ else¦ {¦ 2¦ }\n",
    "#let¦ x¦ =¦ a¦ +¦ b¦ +¦ c¦ +¦ d\n",
    "$¦a¦ +¦ b¦$\n",
    "$¦ a¦ +¦ b¦ $\n",
    "$¦ f¦(¦x¦,¦ y¦)¦ $\n",
    "$¦ mat¦(¦1¦,¦ 2¦;¦ 3¦,¦ 4¦)¦ $\n",
    "$¦ x¦_¦1¦^¦2¦ $\n",
    "$¦ a¦/¦b¦ $\n",
    "$¦ (¦a¦ +¦ b¦)¦ $\n",
    "$¦ #¦x¦ +¦ #f(¦1¦)¦ $\n",
    "$¦ a¦ &¦ b¦ \\¦\n  c¦ &¦ d¦ $\n",
    "$¦ sqrt¦(¦x¦)¦ +¦ √¦y¦ $\n",
    "$¦ f¦'¦'¦ $\n",
    "=¦ Heading¦ text\n",
    "-¦ item¦ one\n-¦ item¦ two\n",
    "+¦ first\n  +¦ nested\n",
    "/¦ Term¦:¦ description\n",
    "*¦strong¦ text¦*¦ and¦ _¦emph¦_\n",
    "text¦ #¦x¦ more¦ #f(¦1¦)¦;¦ end\n",
    "a¦ @ref¦ b¦ @ref¦[¦s¦]¦ <lab>\n",
    "$ x + (¦a  +   b¦) $\n",
    "$ [¦a¦]¦ {¦b   c¦} $\n",
    "$ (¦\n  a  +   b\n      +    c¦\n) $\n",
    "$ sqrt(¦a  b¦) mat(¦1,¦ 2;¦ 3,¦ 4¦) $\n",
    "#f(¦\n  1,\n  2¦\n\n  ,¦\n\n)\n",
    "#let x =¦ (1   +   2)\n",
    "#for (a,   b) in¦ (x  ,y) { a }\n",
    "#(¦(  1+2  ))¦ #let (a,¦ (b  ,c)) = d\n",
    "#let f(¦(x)) =¦ (x   *   2)\n",
    "text #f[- a¦\n          b¦] more¦\n",
    "#f[- a¦ \\ ¦]\n",
    "#[+ a¦\n   b¦]¦ #[/ T: d¦\n  e]\n",
    "#[¦a¦ b¦]¦\n",
    "#[¦\n  a¦\n\n  b¦\n]\n",
    "#f¦[¦a¦]¦[¦b¦]\n",
    "#x¦.¦y¦[¦c¦]\n",
    "#(¦a¦.¦b¦)¦(¦c¦)\n",
    "#{¦\n  // lead\n  a¦\n  b¦ // trail\n}\n",
    "#f(¦\n  a¦,¦\n  b¦,¦\n)\n",
    "#(¦\n  a¦:¦ 1¦,¦\n  b¦:¦ 2¦,¦\n)\n",
    "+ - apples¦\n    (the red ones)¦\n  - pears\n",
    "- - x¦\n    y¦\n",
    "/ Term: - x¦\n    y¦\n",
    "- + a¦\n    b¦\n    + c¦\n      d\n",
    "- item #f(¦a,¦\n  b)¦ tail\n  more¦\n",
    "= Head¦\n- a¦\n  - b¦\n    - c¦\n      text¦\n",
    "#[¦\n  - a¦\n    b¦\n]\n",
    "#f[¦\n  + x¦\n    $ y $¦\n]\n",
    "#let f = x¦ =>¦ not¦ aaaa¦ ==¦ bbbb\n",
    "#let f = (¦x¦)¦ =>¦ y¦ +=¦ a¦ *¦ b\n",
    "#let f = x¦ =>¦ return¦ a¦ and¦ b¦ or¦ c\n",
    "#let f = x¦ =>¦ -¦a¦ in¦ b\n",
    // inline equations in running text, with delimited groups (their closing `$` shares the line)
    "text $¦(¦a¦ +¦ b¦)¦$ more\n",
    "$ vec¦(¦(¦a¦ +¦ b¦)¦,¦ c¦) $\n",
    "- item $¦[¦a¦]¦$ tail\n",
];

pub const TRIVIA: &[&str] = &[
    "",
    " ",
    "\n",
    "\n\n",
    " /* c */ ",
    "/* c */",
    "/* a\n   b */",
    "/* a\n \n   b */",
    "/*\n    p\n  \n    q\n*/",
    " // lc\n",
    "\n// own\n",
    " // one\n // two\n",
    " /* a */ // b\n",
    " /* @typstyle off */ ",
    "// @typstyle off\n",
    "/*@typstyle off*/",
    "// @typstyle off: aligned by hand\n",
    "\n\n\n\n",
    "\r\n",
    "\t",
    // several comments in one gap: their relative order is part of C06
    "\n/* a */\n/* b */\n",
    " /* a */ /* b */ ",
    "\n// a\n/* b */\n/* c */\n",
];

pub fn template_gaps(t: &str) -> usize {
    t.matches('¦').count()
}

/// (template, gap, trivia, cfg-variant)
pub const EXH_CFGS: usize = 8;
pub fn exh_cfg(k: usize, tpl_len: usize) -> Cfg {
    match k {
        0 => Cfg { tab: 2, width: 0, blank: 2, reorder: false },
        1 => Cfg { tab: 2, width: 100000, blank: 2, reorder: false },
        2 => Cfg { tab: 4, width: tpl_len.saturating_sub(3), blank: 2, reorder: false },
        3 => Cfg { tab: 1, width: tpl_len + 2, blank: 0, reorder: true },
        4 => Cfg { tab: 3, width: tpl_len / 2, blank: 1, reorder: false },
        5 => Cfg { tab: 8, width: 20, blank: 3, reorder: true },
        6 => Cfg { tab: 2, width: 1, blank: 2, reorder: false },
        _ => Cfg { tab: 2, width: 80, blank: 2, reorder: false },
    }
}

pub fn exh_universe() -> u64 {
    let mut n = 0u64;
    for t in TEMPLATES {
        n += (template_gaps(t) * TRIVIA.len() * EXH_CFGS) as u64;
    }
    n
}

pub fn exh_case(mut idx: u64) -> (String, Cfg, String) {
    for (ti, t) in TEMPLATES.iter().enumerate() {
        let per = (template_gaps(t) * TRIVIA.len() * EXH_CFGS) as u64;
        if idx < per {
            let k = (idx % EXH_CFGS as u64) as usize;
            let rest = idx / EXH_CFGS as u64;
            let tr = (rest % TRIVIA.len() as u64) as usize;
            let gap = (rest / TRIVIA.len() as u64) as usize;
            let mut s = String::new();
            for (i, part) in t.split('¦').enumerate() {
                if i > 0 && i - 1 == gap {
                    s += TRIVIA[tr];
                }
                s += part;
            }
            let plain_len = t.replace('¦', "").len();
            return (s, exh_cfg(k, plain_len), format!("tpl{} gap{} trivia{} cfg{}", ti, gap, tr, k));
        }
        idx -= per;
    }
    (String::new(), Cfg::default(), "out of range".into())
}

// ---------------------------------------------------------------------------------------------
// G-exh2: the same templates with *two* nearby gaps filled at once (white space, line break, block
// comment, line comment, blank line in each): decisions that depend on what stands at both edges of
// a construct — padding after an opening delimiter *and* a comment before the closing one, a comment
// on either side of an operator, a blank line before and a comment after an item.
// ---------------------------------------------------------------------------------------------
pub const PAIR_TRIVIA: &[&str] = &[" ", "\n", " /* c */ ", " // lc\n", "\n\n"];
const PAIR_SPAN: usize = 4;
const PAIR_CFGS: usize = 4;

fn pair_count(g: usize) -> usize {
    (0..g).map(|g1| (1..=PAIR_SPAN).filter(|d| g1 + d < g).count()).sum()
}

pub fn exh2_universe() -> u64 {
    TEMPLATES.iter().map(|t| (pair_count(template_gaps(t)) * PAIR_TRIVIA.len() * PAIR_TRIVIA.len() * PAIR_CFGS) as u64).sum()
}

pub fn exh2_case(mut idx: u64) -> (String, Cfg, String) {
    for (ti, t) in TEMPLATES.iter().enumerate() {
        let g = template_gaps(t);
        let per = (pair_count(g) * PAIR_TRIVIA.len() * PAIR_TRIVIA.len() * PAIR_CFGS) as u64;
        if idx < per {
            let k = 2 * (idx % PAIR_CFGS as u64) as usize;
            let mut rest = idx / PAIR_CFGS as u64;
            let t2 = (rest % PAIR_TRIVIA.len() as u64) as usize;
            rest /= PAIR_TRIVIA.len() as u64;
            let t1 = (rest % PAIR_TRIVIA.len() as u64) as usize;
            let mut pi = (rest / PAIR_TRIVIA.len() as u64) as usize;
            let (mut ga, mut gb) = (0usize, 1usize);
            'outer: for g1 in 0..g {
                for d in 1..=PAIR_SPAN {
                    if g1 + d < g {
                        if pi == 0 { ga = g1; gb = g1 + d; break 'outer; }
                        pi -= 1;
                    }
                }
            }
            let mut s = String::new();
            for (i, part) in t.split('¦').enumerate() {
                if i > 0 && i - 1 == ga { s += PAIR_TRIVIA[t1]; }
                if i > 0 && i - 1 == gb { s += PAIR_TRIVIA[t2]; }
                s += part;
            }
            let plain_len = t.replace('¦', "").len();
            return (s, exh_cfg(k, plain_len), format!("tpl{} gaps{}+{} trivia{}+{} cfg{}", ti, ga, gb, t1, t2, k));
        }
        idx -= per;
    }
    (String::new(), Cfg::default(), "out of range".into())
}

// ---------------------------------------------------------------------------------------------
// G-nest: every container position x every payload with layout logic of its own x a mark in front
// of the container element.  Probes pairs of sites that each look fine alone: what a construct does
// with comments, blank lines or its own compact layouts, seen from inside every position an
// expression can stand in — with nothing, a comment, or an `@typstyle off` directive directly in
// front of the element that holds it (a directive marks that element, whether or not the printer
// treats elements of that kind verbatim, and the attribute pass does not descend below a mark).
// `◊` = the payload, `§` = the mark.
// ---------------------------------------------------------------------------------------------
pub const NEST_CONTAINERS: &[&str] = &[
    "#f(§◊)\n",
    "#f(§key: ◊)\n",
    "#f(1, §..◊)\n",
    "#f(g(§h: ◊), 2)\n",
    "#(§k: ◊)\n",
    "#(§\"k\": ◊)\n",
    "#(§◊, 2)\n",
    "#(1, §..◊)\n",
    "#(§◊,)\n",
    "#((§◊))\n",
    "#let x = §◊\n",
    "#let f(a, §b: ◊) = a\n",
    "#let (a, §b: ◊) = d\n",
    "#{\n  §◊\n}\n",
    "#{\n  let y = §◊\n  y\n}\n",
    "#set text(§fill: ◊)\n",
    "#show: §◊\n",
    "#show heading: it => §◊\n",
    "#let g = x => §◊\n",
    "#if c { §◊ } else { 2 }\n",
    "#for x in §◊ { x }\n",
    "#context §◊\n",
    "text §#◊ more\n",
    "- item §#◊\n",
    "/ Term: §#◊\n",
    "= Heading §#◊\n",
    "#[§#◊]\n",
    "#f[text §#◊]\n",
    "*strong §#◊*\n",
    "$ f(§#◊) + g(x, §#◊) $\n",
    "$ §#◊ $\n",
    // cells of a table that takes the row layout, and of one that does not
    "#table(columns: 2, §◊, [b])\n",
    "#{\n  grid(columns: (1fr, auto), [a], §◊)\n}\n",
    "#table(§◊, [b])\n",
    "#import \"m.typ\": a\n#let v = a.b.c(§◊)\n",
];

pub const NEST_PAYLOADS: &[&str] = &[
    "x",
    "table(columns: 2, [a], /* c */ [b], // lc\n [c], [d])",
    "table(\n  columns: 2,\n  // header\n  [a], [b],\n  /* row */ [c], [d],\n)",
    "grid(columns: (1fr, 2fr), [a], [b] /* t */)",
    "table(columns: 2, [a],   [b],\n\n\n [c],[d])",
    "f(a, /* c */ b, // lc\n c)",
    "f(  a  ,b )[ t ]",
    "(1, /* c */ 2, // lc\n 3)",
    "(  1,2  ,3)",
    "(a: 1, /* c */ b: 2, // lc\n c: 3)",
    "a.b /* c */ .c(1) // lc\n .d()",
    "a.b.c(  1 ).d(\n 2\n)",
    "a + /* c */ b // lc\n + c",
    "(x, /* c */ y) => x // lc\n + y",
    "{\n  let a = 1 // lc\n\n\n  /* c */ a\n}",
    "[text /* c */ more // lc\n next]",
    "if a { 1 /* c */ } else { // lc\n 2 }",
    "```typ\nraw  text\n  more\n```",
    "\"multi\n   line\"",
    "$ a /* c */ + b // lc\n $",
    "{\n  import \"m.typ\": b, /* c */ a // lc\n\n  b\n}",
    "not /* c */ a",
    "f(/* @typstyle off */ g(  1,2 ), (  3,4 ))",
    "table(..args, columns: 2, [a], [b])",
    "grid(columns: 2, ..head, [1], [2], table.footer([f]))",
    "table(columns: (1fr, auto), table.header([h], [i]), [a], [b], table.hline(), [c], [d])",
];

pub const NEST_MARKS: &[&str] = &["", "/* c */ ", "// @typstyle off\n", "/* @typstyle off */ ", "// lc\n"];

pub fn nest_universe() -> u64 {
    (NEST_CONTAINERS.len() * NEST_PAYLOADS.len() * NEST_MARKS.len() * EXH_CFGS) as u64
}

pub fn nest_case(idx: u64) -> (String, Cfg, String) {
    let k = (idx % EXH_CFGS as u64) as usize;
    let rest = idx / EXH_CFGS as u64;
    let m = (rest % NEST_MARKS.len() as u64) as usize;
    let rest = rest / NEST_MARKS.len() as u64;
    let p = (rest % NEST_PAYLOADS.len() as u64) as usize;
    let c = ((rest / NEST_PAYLOADS.len() as u64) as usize) % NEST_CONTAINERS.len();
    let s = NEST_CONTAINERS[c].replace('§', NEST_MARKS[m]).replace('◊', NEST_PAYLOADS[p]);
    let plain_len = NEST_CONTAINERS[c].len() + NEST_PAYLOADS[p].len();
    (s, exh_cfg(k, plain_len), format!("container{} payload{} mark{} cfg{}", c, p, m, k))
}

// ---------------------------------------------------------------------------------------------
// G-raw: raw elements, enumerated: text (backticks, blanks at either end, blank lines, tabs, indented
// lines) × fence length × language tag × what separates tag and text × what stands before the closing
// fence × container (markup, list item, term, call argument, content block, code block) × configuration.
// Ill-formed combinations are skipped by the harness like every erroneous source.
// ---------------------------------------------------------------------------------------------

pub const RAW_TEXTS: &[&str] = &[
    "x", "`a`", "`a` ", "`a`  ", " `a`", "a`", "a` ", "a  b", "", " ", "a\n  b", "a\n\n  b\n", "\n  a\n", "  a\n    b\n  ",
    "a\t", "``", "a\\", "`a`\n", "a\n`", "a \n b ",
];
pub const RAW_FENCES: &[&str] = &["`", "```", "````"];
pub const RAW_LANGS: &[&str] = &["", "rs", "typ"];
pub const RAW_SEPS: &[&str] = &[" ", "\n"];
pub const RAW_CLOSERS: &[&str] = &["", " ", "\n", "\n  "];
pub const RAW_CONTAINERS: &[&str] = &[
    "◊\n", "- ◊\n", "#f(◊)\n", "#[◊]\n", "  text ◊ more\n", "#{\n  ◊\n}\n", "/ T: ◊\n", "+ a\n\n  ◊\n", "#f(x)[◊]\n",
];
const RAW_CFGS: usize = 4;

pub fn raw_universe() -> u64 {
    (RAW_TEXTS.len() * RAW_FENCES.len() * RAW_LANGS.len() * RAW_SEPS.len() * RAW_CLOSERS.len() * RAW_CONTAINERS.len() * RAW_CFGS) as u64
}

pub fn raw_case(idx: u64) -> (String, Cfg, String) {
    let k = 2 * (idx % RAW_CFGS as u64) as usize;
    let mut rest = idx / RAW_CFGS as u64;
    let mut take = |n: usize| -> usize { let v = (rest % n as u64) as usize; rest /= n as u64; v };
    let (co, cl, se, la, fe) = (take(RAW_CONTAINERS.len()), take(RAW_CLOSERS.len()), take(RAW_SEPS.len()), take(RAW_LANGS.len()), take(RAW_FENCES.len()));
    let te = take(RAW_TEXTS.len());
    let fence = RAW_FENCES[fe];
    let mut raw = String::from(fence);
    if fence.len() >= 3 {
        raw += RAW_LANGS[la];
        if !RAW_LANGS[la].is_empty() { raw += RAW_SEPS[se]; }
    }
    raw += RAW_TEXTS[te];
    raw += RAW_CLOSERS[cl];
    raw += fence;
    let s = RAW_CONTAINERS[co].replace('◊', &raw);
    let n = s.len();
    (s, exh_cfg(k, n), format!("text{} fence{} lang{} sep{} closer{} container{} cfg{}", te, fe, la, se, cl, co, k))
}

// ---------------------------------------------------------------------------------------------
// G-tab: table / grid calls, enumerated: every sequence (length ≤ 5) of positional arguments over an
// alphabet of cells, headers, footers, lines, spans and spreads × column specifications × where the
// named arguments stand × trailing comma × call × configurations.  (Rows that are incomplete when a
// header or footer arrives, cells after a footer, spans … — shapes the fixed table cases never had.)
// ---------------------------------------------------------------------------------------------

pub const TAB_ITEMS: &[&str] = &[
    "[a]", "table.header([h], [i])", "table.footer([f])", "table.hline()", "table.cell(colspan: 2)[s]", "..rest",
];
pub const TAB_COLS: &[&str] = &["1", "2", "3", "(1fr, auto)"];
const TAB_CFGS: usize = 4;
pub const TAB_NAMED: &[&str] = &["first", "last", "split", "none"];
pub const TAB_CALLS: &[(&str, &str)] = &[("#table(", ")"), ("#{\n  grid(", ")\n}")];
const TAB_MAXLEN: usize = 4;

fn tab_seqs() -> u64 {
    let a = TAB_ITEMS.len() as u64;
    let mut n = 0u64;
    let mut p = 1u64;
    for _ in 0..=TAB_MAXLEN { n += p; p *= a; }
    n
}

pub fn tab_universe() -> u64 {
    tab_seqs() * (TAB_COLS.len() * TAB_NAMED.len() * 2 * TAB_CALLS.len() * TAB_CFGS) as u64
}

pub fn tab_case(idx: u64) -> (String, Cfg, String) {
    let k = 2 * (idx % TAB_CFGS as u64) as usize;
    let rest = idx / TAB_CFGS as u64;
    let call = (rest % TAB_CALLS.len() as u64) as usize;
    let rest = rest / TAB_CALLS.len() as u64;
    let trailing = rest % 2 == 1;
    let rest = rest / 2;
    let named = (rest % TAB_NAMED.len() as u64) as usize;
    let rest = rest / TAB_NAMED.len() as u64;
    let cols = (rest % TAB_COLS.len() as u64) as usize;
    let mut seq = (rest / TAB_COLS.len() as u64) % tab_seqs();
    // decode the sequence number: lengths 0, 1, 2, … in turn
    let a = TAB_ITEMS.len() as u64;
    let mut len = 0usize;
    let mut block = 1u64;
    while seq >= block { seq -= block; block *= a; len += 1; }
    let mut items: Vec<&str> = Vec::new();
    for _ in 0..len { items.push(TAB_ITEMS[(seq % a) as usize]); seq /= a; }
    let colarg = format!("columns: {}", TAB_COLS[cols]);
    let mut parts: Vec<String> = Vec::new();
    match TAB_NAMED[named] {
        "first" => { parts.push(colarg); parts.push("stroke: none".into()); parts.extend(items.iter().map(|s| s.to_string())); }
        "last" => { parts.extend(items.iter().map(|s| s.to_string())); parts.push(colarg); }
        "split" => { parts.push(colarg); parts.extend(items.iter().map(|s| s.to_string())); parts.push("gutter: 1pt".into()); }
        _ => { parts.extend(items.iter().map(|s| s.to_string())); }
    }
    let mut body = parts.join(", ");
    if trailing && !parts.is_empty() { body.push(','); }
    let (open, close) = TAB_CALLS[call];
    let open = open.replace("\\n", "\n");
    let close = close.replace("\\n", "\n");
    let s = format!("{}{}{}\n", open, body, close);
    let plain_len = s.len();
    (s, exh_cfg(k, plain_len), format!("cols{} named{} trailing{} call{} len{} cfg{}", cols, named, trailing, call, len, k))
}

// ---------------------------------------------------------------------------------------------
// G-mal: malformed and hostile inputs (C05, C13 refusal, C16)
// ---------------------------------------------------------------------------------------------

pub const MAL_U: u64 = 1_000_000;
pub fn mal_case(idx: u64, fixtures: &Fixtures) -> (String, Cfg) {
    let mut r = Rng::new(mix(0x3A1, idx));
    let ws = [
        "\n", "\r", "\r\n", "\u{0b}", "\u{0c}", "\u{85}", "\u{2028}", "\u{2029}", " ", "\t", "\u{a0}", "\u{1680}",
        "\u{2003}", "\u{200b}", "\u{202f}", "\u{205f}", "\u{3000}", "\u{feff}",
    ];
    let frag = [
        "#", "(", ")", "[", "]", "{", "}", "$", "*", "_", "`", "```", "\"", "//", "/*", "*/", "=", "-", "+", "/",
        ":", ",", ";", ".", "..", "=>", "let", "if", "else", "for", "in", "while", "import", "include", "as",
        "show", "set", "context", "return", "not", "and", "or", "x", "f(", "1", "1.5em", "<a>", "@r", "\\", "\\u{1F600}",
        "é", "😀", "中", "a̐", "\u{0}", "#f(a, // c", "$sin( )$", "#{", "#[", "#(", "- ", "+ ", "/ T: ", "= H",
        // numbers at the extremes, where the printer reads a number from the source
        "#table(columns: 99999999999999999, [a], [b])", "#grid(columns: 9223372036854775807, [a])", "#table(columns: 0, [a], [b])",
        "#table(columns: 0xffffffffffffffff, [a])", "99999999999999999999999999", "1e999", "0b1111111111111111111111111111111111111111111111111111111111111111111",
        "#table(columns: (1fr,) * 99999999999, [a])",
    ];
    let src = match r.below(8) {
        0 => {
            // arbitrary fragments
            let n = r.below(12);
            (0..n).map(|_| if r.below(3) == 0 { r.pick(&ws) } else { r.pick(&frag) }).collect::<String>()
        }
        1 | 2 => {
            // damaged valid document: delete / duplicate / replace a char range
            let (mut s, _, _) = gram_case(r.next() % GRAM_U);
            let chars: Vec<char> = s.chars().collect();
            if !chars.is_empty() {
                let i = r.below(chars.len());
                let j = (i + r.below(4)).min(chars.len());
                let mut o: String = chars[..i].iter().collect();
                match r.below(3) {
                    0 => {}
                    1 => {
                        o.extend(chars[i..j].iter());
                        o.extend(chars[i..j].iter());
                    }
                    _ => o += r.pick(&frag),
                }
                o.extend(chars[j..].iter());
                s = o;
            }
            s
        }
        3 => {
            // truncated fixture
            let (_, f) = &fixtures.items[r.below(fixtures.items.len().max(1)).min(fixtures.items.len().saturating_sub(1))];
            let chars: Vec<char> = f.chars().take(3000).collect();
            let k = r.below(chars.len().max(1));
            chars[..k].iter().collect()
        }
        4 => {
            // valid generated document with exotic newlines/blanks substituted
            let (s, _, _) = gram_case(r.next() % GRAM_U);
            let w = r.pick(&ws);
            let from = r.pick(&["\n", " "]);
            s.replace(from, w)
        }
        5 => {
            // deep nesting
            let d = 1 + r.below(200);
            let pairs = [
                ("(", ")"), ("[", "]"), ("{", "}"), ("f(", ")"), ("$(", ")$"), ("#[", "]"), ("(a, ", ")"), ("-", ""),
                ("aaaa.bbbb.cccc(", ")"), ("a.b.c(x => d.e.f(", "))"), ("table(columns: 1, ", ")"), ("grid(columns: 2, [a], [#", "])"),
                ("f(x)[#", "]"), ("if a { ", " } else { b }"), ("a + (b * ", ")"), ("(k: ", ")"), ("x => ", ""), ("mat(1, ", "; 2)"),
            ];
            let (o, c) = pairs[r.below(pairs.len())];
            let mut s = String::from("#");
            for _ in 0..d {
                s += o;
            }
            s += "x";
            let close = if r.below(4) == 0 { d.saturating_sub(1 + r.below(3)) } else { d };
            for _ in 0..close {
                s += c;
            }
            s
        }
        6 => {
            // arbitrary unicode scalar soup
            let n = r.below(20);
            (0..n)
                .map(|_| {
                    let c = match r.below(4) {
                        0 => r.below(128) as u32,
                        1 => 0x80 + r.below(0x800) as u32,
                        2 => 0x2000 + r.below(0x100) as u32,
                        _ => r.below(0x11_0000) as u32,
                    };
                    char::from_u32(c).unwrap_or('x')
                })
                .collect()
        }
        _ => {
            // well-formed generated
            gram_case(r.next() % GRAM_U).0
        }
    };
    let width = match r.below(6) {
        0 => 0,
        1 => 1,
        2 => usize::MAX / 2,
        3 => 80,
        _ => r.below(200),
    };
    let tab = match r.below(5) {
        0 => 0,
        1 => 64,
        _ => r.below(9),
    };
    (src, Cfg { tab, width, blank: r.below(4), reorder: r.below(2) == 0 })
}

// ---------------------------------------------------------------------------------------------
// G-imp: import statements (C19)
// ---------------------------------------------------------------------------------------------
pub const IMP_U: u64 = 200_000;
pub fn imp_case(idx: u64) -> (String, Cfg) {
    let mut r = Rng::new(mix(0x1417, idx));
    let names = ["a", "b", "c", "zeta", "Alpha", "beta", "_x", "a1", "a-b", "é", "B", "aa", "ab"];
    let n_stmts = 1 + r.below(3);
    let mut s = String::new();
    let in_block = r.below(4) == 0;
    if in_block {
        s += "#{\n";
    }
    for _ in 0..n_stmts {
        if !in_block {
            s += "#";
        }
        s += "import \"m.typ\"";
        if r.below(10) == 0 {
            s += " as m";
        }
        match r.below(12) {
            0 => {
                s += ": *\n";
                continue;
            }
            1 => {
                s += "\n";
                continue;
            }
            _ => {}
        }
        s += ": ";
        // trivia between the colon and the items (a line comment there needs parentheses around the items)
        let after_colon = r.below(12);
        let par = r.below(2) == 0 || after_colon == 1;
        match after_colon {
            0 => s += "/* k */ ",
            1 => s += "// k\n  ",
            _ => {}
        }
        let ml = par && r.below(2) == 0;
        let cm = r.below(5) == 0;
        if par {
            s += "(";
            if ml {
                s += "\n  ";
            }
        }
        // a parenthesised list may hold no item at all, only comments (all names commented out)
        let n = if par && r.below(8) == 0 { 0 } else { 1 + r.below(6) };
        if par && (n == 0 || r.below(8) == 0) {
            s += r.pick(&["/* lead */ ", "// lead\n  ", "", "// a, b,\n  // c,\n  ", "/* a, b */"]);
        }
        for i in 0..n {
            let nm = r.pick(&names);
            s += nm;
            if r.below(5) == 0 {
                // the links of a path and the renaming may be spaced in any way in the source
                s += r.pick(&[".", ".", ".", " .", ". ", " . ", "  .  "]);
                s += r.pick(&names);
                if r.below(4) == 0 {
                    s += r.pick(&[".", ". ", " ."]);
                    s += r.pick(&names);
                }
            }
            if r.below(3) == 0 {
                s += r.pick(&[" as ", " as ", "  as  ", " as  "]);
                s += r.pick(&names);
            }
            if cm && par && r.below(3) == 0 {
                s += r.pick(&[" /* c */", " // c\n  "]);
            }
            if i + 1 < n {
                s += ",";
                s += if ml { "\n  " } else { " " };
            } else if par && r.below(2) == 0 {
                s += ",";
            }
        }
        if par {
            if ml {
                s += "\n";
            }
            s += ")";
        }
        s += "\n";
    }
    if in_block {
        s += "}\n";
    }
    if r.below(3) == 0 {
        s += "Some text #f(a, b) after.\n";
    }
    let mut cfg = rand_cfg(&mut r);
    cfg.reorder = true; // the check evaluates both settings
    (s, cfg)
}

// ---------------------------------------------------------------------------------------------
// G-perf: recursive families (C18, C05 stack)
// ---------------------------------------------------------------------------------------------
pub const PERF_FAMILIES: &[&str] = &[
    "call", "chain", "array", "dict", "closure", "block", "content", "cond", "mathdelim", "list", "paren", "binary",
    "dotcall", "mathcall", "strong", "unary", "letdestruct", "args-content", "plainchain", "closure-call", "show-chain",
    "table-nest", "grid-cell", "mat-nest", "set-content", "dict-closure", "closure-unary", "closure-field", "for-binary", "closure-stmt-binary",
];
pub fn perf_case(fam: &str, d: usize) -> String {
    let rep = |o: &str, c: &str, core: &str| -> String {
        let mut s = String::new();
        for _ in 0..d {
            s += o;
        }
        s += core;
        for _ in 0..d {
            s += c;
        }
        s
    };
    match fam {
        "call" => format!("#{}\n", rep("f(", ")", "x")),
        "chain" => {
            let mut s = String::from("#a");
            for i in 0..d {
                s += &format!(".m{}(b.c{}.d())", i, i);
            }
            s + "\n"
        }
        "array" => format!("#{}\n", rep("(1, ", ")", "2")),
        "dict" => format!("#{}\n", rep("(k: ", ")", "1")),
        "closure" => format!("#let f = {}\n", rep("x => ", "", "x")),
        "block" => format!("#{}\n", rep("{ ", " }", "x")),
        "content" => format!("#{}\n", rep("[#", "]", "x")),
        "cond" => format!("#{}\n", rep("if a { ", " } else { b }", "c")),
        "mathdelim" => format!("${}$\n", rep("(", ")", "x")),
        "list" => {
            let mut s = String::new();
            for i in 0..d {
                s += &" ".repeat(2 * i);
                s += "- item\n";
            }
            s
        }
        "paren" => format!("#{}\n", rep("(", ")", "x + y")),
        "binary" => {
            let mut s = String::from("#(a");
            for i in 0..d {
                s += if i % 2 == 0 { " + b" } else { " * (c - d)" };
            }
            s + ")\n"
        }
        "dotcall" => {
            let mut s = String::from("#x");
            for _ in 0..d {
                s = format!("f({}).g", s.trim_start_matches('#'));
                s.insert(0, '#');
            }
            s + "\n"
        }
        "mathcall" => format!("${}$\n", rep("sin(", ")", "x")),
        "strong" => {
            let mut s = String::new();
            for i in 0..d {
                s += if i % 2 == 0 { "*a " } else { "_b " };
            }
            s += "c";
            for i in (0..d).rev() {
                s += if i % 2 == 0 { " a*" } else { " b_" };
            }
            s + "\n"
        }
        "unary" => format!("#({}x)\n", "-".repeat(d)),
        "plainchain" => format!("#let result = {}\n", rep("document.metadata.transform(", ")", "0")),
        "closure-call" => format!("#{}\n", rep("f(x => g.h.map(", "))", "x")),
        "show-chain" => format!("#show: {}\n", rep("a.b.with(c.d.e(", "))", "1")),
        "letdestruct" => format!("#let {} = y\n", rep("(a, ", ")", "b")),
        "closure-unary" => format!("#{}\n", rep("f(x => -", ")", "x")),
        "closure-field" => format!("#{}\n", rep("f(x => g(", ").y)", "x")),
        "for-binary" => format!("#{}\n", rep("for i in a + { ", " } { 1 }", "b")),
        "closure-stmt-binary" => format!("#{}\n", rep("{ let f = x => 1 + ", " }", "2")),
        "table-nest" => format!("#{}\n", rep("table(columns: 1, ", ")", "[x]")),
        "grid-cell" => format!("#{}\n", rep("grid(columns: 2, [a], [#", "])", "x")),
        "mat-nest" => format!("${}$\n", rep("mat(1, ", "; 2)", "x")),
        "set-content" => format!("#{}\n", rep("set text(fill: f[#", "])", "x")),
        "dict-closure" => format!("#{}\n", rep("(k: x => (j: ", "))", "1")),
        _ => {
            let mut s = String::from("#f");
            for _ in 0..d {
                s += "[a #g";
            }
            s += "[z]";
            for _ in 0..d {
                s += "]";
            }
            s + "\n"
        }
    }
}

/// Flat families (C18): one construct repeated `n` times at a single level.  Work proportional to the
/// size of the source means time(4n) is about 4 x time(n); a per-item pass over the whole sequence
/// (or over the whole output) makes it 16 x.
pub const FLAT_FAMILIES: &[&str] = &[
    "stmts", "stmts-blank", "args-blank", "array-lines", "dict-blank", "paragraphs", "prose-lines", "list-items", "enum-blank",
    "comments", "content-blocks", "equations", "lets-markup", "imports", "raw-lines", "strings",
];
pub fn flat_case(fam: &str, n: usize) -> String {
    let mut s = String::new();
    match fam {
        "stmts" | "stmts-blank" => {
            s += "#let f() = {\n";
            for i in 0..n {
                s += &format!("  let v{} = calc.max({}, {} + 1)\n", i, i, i);
                if fam == "stmts-blank" {
                    s += "\n";
                }
            }
            s += "}\n";
        }
        "args-blank" => {
            s += "#f(\n";
            for i in 0..n {
                s += &format!("  g({}, x),\n\n", i);
            }
            s += ")\n";
        }
        "array-lines" => {
            s += "#let a = (\n";
            for i in 0..n {
                s += &format!("  {},   \n", i);
            }
            s += ")\n";
        }
        "dict-blank" => {
            s += "#let d = (\n";
            for i in 0..n {
                s += &format!("  k{}: {},\n\n", i, i);
            }
            s += ")\n";
        }
        "paragraphs" => {
            for i in 0..n {
                s += &format!("Paragraph {} with some   words in it.  \n\n", i);
            }
        }
        "prose-lines" => {
            for i in 0..n {
                s += &format!("line {} of one long paragraph\n", i);
            }
        }
        "list-items" => {
            for i in 0..n {
                s += &format!("- item {}\n", i);
            }
        }
        "enum-blank" => {
            for i in 0..n {
                s += &format!("+ item {}\n  more\n\n", i);
            }
        }
        "comments" => {
            s += "#{\n";
            for i in 0..n {
                s += &format!("  // comment {}\n  /* b */ x{}\n", i, i);
            }
            s += "}\n";
        }
        "content-blocks" => {
            s += "#f";
            for i in 0..n {
                s += &format!("[a{}]", i);
            }
            s += "\n";
        }
        "equations" => {
            for i in 0..n {
                s += &format!("$ x_{} + y $\n\n", i);
            }
        }
        "lets-markup" => {
            for i in 0..n {
                s += &format!("#let v{} = (a: {}, b: f(x))\n", i, i);
            }
        }
        "imports" => {
            for i in 0..n {
                s += &format!("#import \"m{}.typ\": c, b, a\n", i);
            }
        }
        "raw-lines" => {
            s += "#[\n  ```\n";
            for i in 0..n {
                s += &format!("  line {}  \n\n", i);
            }
            s += "  ```\n]\n";
        }
        _ => {
            s += "#(\n";
            for i in 0..n {
                s += &format!("  \"s{}  \",\n", i);
            }
            s += ")\n";
        }
    }
    s
}

// ---------------------------------------------------------------------------------------------
// G-mut: token-level mutations of valid documents (fixtures, generated documents) that still
// parse without errors.  Reaches the corners between productions the grammar does not write
// down: removed blanks between tokens, extra parentheses around any expression, stray
// separators and terminators, duplicated marks, comments at every leaf boundary.
// ---------------------------------------------------------------------------------------------
pub const MUT_U: u64 = 600_000;

struct MLeaf {
    kind: typst_syntax::SyntaxKind,
    start: usize,
    end: usize,
}

fn mut_collect(
    n: &typst_syntax::SyntaxNode,
    off: &mut usize,
    parent: typst_syntax::SyntaxKind,
    prev_hash: bool,
    leaves: &mut Vec<MLeaf>,
    exprs: &mut Vec<(usize, usize)>,
) {
    use typst_syntax::{ast::Expr, SyntaxKind as K};
    let start = *off;
    if n.children().len() == 0 {
        *off += n.text().len();
        leaves.push(MLeaf { kind: n.kind(), start, end: *off });
    } else {
        let mut ph = false;
        for c in n.children() {
            mut_collect(c, off, n.kind(), ph, leaves, exprs);
            ph = c.kind() == K::Hash;
        }
    }
    // expressions in code position: anywhere but directly in markup or math (there only after `#`)
    let in_code = !matches!(parent, K::Markup | K::Math | K::MathAttach | K::MathFrac | K::MathRoot | K::MathDelimited | K::Equation | K::Strong | K::Emph | K::Heading | K::ListItem | K::EnumItem | K::TermItem);
    if n.is::<Expr>() && (in_code || prev_hash) && *off > start && !matches!(n.kind(), K::Text | K::Space | K::Parbreak | K::Markup | K::Math | K::Code) {
        exprs.push((start, *off));
    }
}

pub fn mut_case(idx: u64, fixtures: &Fixtures) -> (String, Cfg, String) {
    use typst_syntax::SyntaxKind as K;
    let mut r = Rng::new(mix(0x3071, idx));
    let (mut src, mut cfg) = if r.below(2) == 0 && !fixtures.items.is_empty() {
        // a small fixture or fixture chunk
        let mut pick = None;
        for _ in 0..8 {
            let (_, s) = &fixtures.items[r.below(fixtures.items.len())];
            if s.len() < 1500 && (s.contains('#') || s.contains('$')) && !typst_syntax::parse(s).erroneous() {
                pick = Some(s.clone());
                break;
            }
        }
        (pick.unwrap_or_else(|| gram_case(r.next() % GRAM_U).0), rand_cfg(&mut r))
    } else {
        let (s, c, _) = gram_case(r.next() % GRAM_U);
        (s, c)
    };
    if r.below(4) == 0 {
        cfg = rand_cfg(&mut r);
    }
    let ins = [
        ";", ",", "_", ".", "#", "[]", "()", "{}", "\\", "~", "-", "'", "^", "em", "x", "1", "1.", "\"s\"", "$", "// c\n", "/* c */", ":", "..",
        "%", "!", "none", "#x", "#f()", "#(x)", "[ ]", " ", "\n", "\n\n", "*", "=", "+", "<l>", "@r", "@r[]", "not ", "in", "&", "|", "\"", "`", "/",
    ];
    let nedits = 1 + r.below(3);
    let mut log = String::new();
    for _ in 0..nedits {
        for _attempt in 0..8 {
            let root = typst_syntax::parse(&src);
            if root.erroneous() {
                break;
            }
            let (mut leaves, mut exprs) = (vec![], vec![]);
            mut_collect(&root, &mut 0, K::Markup, false, &mut leaves, &mut exprs);
            if leaves.is_empty() {
                break;
            }
            let spaces: Vec<usize> = (0..leaves.len()).filter(|&i| leaves[i].kind == K::Space).collect();
            let op = r.below(10);
            let (cand, what): (String, &str) = match op {
                0 | 1 if !spaces.is_empty() => {
                    let l = &leaves[spaces[r.below(spaces.len())]];
                    (format!("{}{}", &src[..l.start], &src[l.end..]), "join")
                }
                2 if !spaces.is_empty() => {
                    let l = &leaves[spaces[r.below(spaces.len())]];
                    let w = r.pick(&["\n", "  ", "\n\n", " /* m */ ", " // m\n", "\n\n\n", "\t", " \n "]);
                    (format!("{}{}{}", &src[..l.start], w, &src[l.end..]), "respace")
                }
                3 | 4 | 5 if !exprs.is_empty() => {
                    let (a, b) = exprs[r.below(exprs.len())];
                    let pairs = [("(", ")"), ("(", ")"), ("((", "))"), ("( ", " )"), ("(/* p */", ")"), ("(\n", "\n)"), ("{", "}"), ("{ ", " }")];
                    let (o, c) = pairs[r.below(pairs.len())];
                    (format!("{}{}{}{}{}", &src[..a], o, &src[a..b], c, &src[b..]), "wrap")
                }
                6 => {
                    let l = &leaves[r.below(leaves.len())];
                    (format!("{}{}", &src[..l.start], &src[l.end..]), "delete")
                }
                7 => {
                    let l = &leaves[r.below(leaves.len())];
                    (format!("{}{}{}", &src[..l.end], &src[l.start..l.end], &src[l.end..]), "dup")
                }
                _ => {
                    let l = &leaves[r.below(leaves.len())];
                    let at = if r.below(2) == 0 { l.start } else { l.end };
                    (format!("{}{}{}", &src[..at], r.pick(&ins), &src[at..]), "insert")
                }
            };
            if cand.len() < 20_000 && !typst_syntax::parse(&cand).erroneous() {
                src = cand;
                log += what;
                log.push(' ');
                break;
            }
        }
    }
    (src, cfg, format!("mut {}", log.trim_end()))
}
