//! Input shapes on which the unchanged tree is known to violate a property (known-findings.json).
//! A case that contains such a shape is not evaluated by the oracle of the affected properties
//! (it is counted under `excluded_shapes` in the evidence); the model/implementation
//! correspondence still runs on it.  Each predicate is a syntactic property of the *input*.
use typst_syntax::{SyntaxKind as K, SyntaxNode};

struct Leaf<'a> {
    kind: K,
    text: &'a str,
    /// kinds of the ancestors, innermost last
    path: Vec<K>,
}

fn leaves<'a>(n: &'a SyntaxNode, path: &mut Vec<K>, out: &mut Vec<Leaf<'a>>) {
    if n.children().len() == 0 {
        out.push(Leaf { kind: n.kind(), text: n.text().as_str(), path: path.clone() });
        return;
    }
    path.push(n.kind());
    for c in n.children() {
        leaves(c, path, out);
    }
    path.pop();
}

fn is_comment(k: K) -> bool {
    matches!(k, K::LineComment | K::BlockComment)
}

fn any_node(n: &SyntaxNode, f: &dyn Fn(&SyntaxNode) -> bool) -> bool {
    f(n) || n.children().any(|c| any_node(c, f))
}

fn in_math(path: &[K]) -> bool {
    // innermost of Equation / code-ish container decides
    for k in path.iter().rev() {
        match k {
            K::Equation | K::Math | K::MathDelimited | K::MathAttach | K::MathFrac | K::MathRoot => return true,
            K::CodeBlock | K::ContentBlock | K::Markup | K::Code => return false,
            _ => {}
        }
    }
    false
}

/// All finding ids whose shape occurs in the tree.
pub fn known_shapes(root: &SyntaxNode) -> Vec<&'static str> {
    let mut found: Vec<&'static str> = vec![];
    let mut ls = vec![];
    leaves(root, &mut vec![], &mut ls);
    let mut add = |id: &'static str| {
        if !found.contains(&id) {
            found.push(id)
        }
    };
    for (i, l) in ls.iter().enumerate() {
        // F9: a math line break `\` that is the last thing before `)` `,` `;` of math call arguments
        if l.kind == K::Linebreak && l.path.contains(&K::Args) && in_math(&l.path) {
            let mut j = i + 1;
            while j < ls.len() && (ls[j].kind == K::Space || is_comment(ls[j].kind)) {
                j += 1;
            }
            if j < ls.len() && matches!(ls[j].kind, K::RightParen | K::Comma | K::Semicolon) && matches!(ls[j].path.last(), Some(&K::Args) | Some(&K::Array)) {
                add("F9");
            }
        }
        // F17: an inline equation whose last token before the closing `$` is a line comment
        if l.kind == K::Dollar && i > 0 {
            let mut j = i - 1;
            while j > 0 && ls[j].kind == K::Space {
                j -= 1;
            }
            if ls[j].kind == K::LineComment && ls[j].path.contains(&K::Equation) {
                add("F17");
            }
        }
        // F4: blanks before a line feed inside a string
        if l.kind == K::Str && l.text.contains('\n') && {
            let parts: Vec<&str> = l.text.split('\n').collect();
            parts[..parts.len() - 1].iter().any(|x| x.ends_with(|c: char| c.is_whitespace()))
        } {
            add("F4");
        }
    }
    // F4: blanks before a line feed inside raw text
    if any_node(root, &|n| {
        n.kind() == K::Raw && {
            let t = n.clone().into_text();
            let lines: Vec<&str> = t.split('\n').collect();
            lines.len() > 1 && lines[..lines.len() - 1].iter().any(|x| x.ends_with(|c: char| c.is_whitespace()))
        }
    }) {
        add("F4");
    }
    // F15: a comment inside 2-D math arguments (`mat(1, // c⏎ 2; 3, 4)`)
    if any_node(root, &|n| {
        n.kind() == K::Args
            && n.children().any(|c| c.kind() == K::Semicolon || c.kind() == K::Array)
            && any_node(n, &|c| is_comment(c.kind()))
    }) {
        add("F15");
    }
    // F7: a comment that starts a line in the body of a list/enum/term item or inside math
    // (the line gets one blank more than a whole number of indent units)
    fn f7(n: &SyntaxNode, in_item: bool) -> bool {
        let k = n.kind();
        let here = (k == K::Markup && in_item) || matches!(k, K::Math | K::MathDelimited | K::Args | K::ListItem | K::EnumItem | K::TermItem);
        if here {
            let cs: Vec<&SyntaxNode> = n.children().collect();
            for (i, c) in cs.iter().enumerate() {
                if is_comment(c.kind()) {
                    let starts_line = i == 0 || (cs[i - 1].kind() == K::Space && cs[i - 1].text().contains('\n')) || cs[i - 1].kind() == K::Parbreak;
                    if starts_line {
                        return true;
                    }
                }
            }
        }
        let in_item = in_item || matches!(k, K::ListItem | K::EnumItem | K::TermItem);
        n.children().any(|c| f7(c, in_item && c.kind() != K::ContentBlock))
    }
    if f7(root, false) {
        add("F7");
    }
    // F21: a list/enum/term item whose body starts with another item on the same line (`- - x`):
    // the inner item's continuation lines are indented by whole units, not to the inner marker
    if any_node(root, &|n| {
        matches!(n.kind(), K::ListItem | K::EnumItem | K::TermItem)
            && n.children().filter(|c| c.kind() == K::Markup).last().is_some_and(|m| {
                m.children().find(|c| c.kind() != K::Space).is_some_and(|c| matches!(c.kind(), K::ListItem | K::EnumItem | K::TermItem))
            })
    }) {
        add("F21");
    }
    // F21 (general form): an item that spans several lines and whose marker is not the first thing
    // on its source line (`text #f[- a⏎          b]`): the continuation lines are re-indented
    // relative to the enclosing block, not to the marker, and leave the item
    {
        let text = root.clone().into_text();
        fn walk21(n: &SyntaxNode, off: &mut usize, text: &str, hit: &mut bool) {
            let start = *off;
            if n.children().len() == 0 {
                *off += n.text().len();
                return;
            }
            for c in n.children() {
                walk21(c, off, text, hit);
            }
            if matches!(n.kind(), K::ListItem | K::EnumItem | K::TermItem) {
                let body = &text[start..*off];
                if body.chars().any(typst_syntax::is_newline) {
                    let line_start = text[..start].rfind(|c: char| typst_syntax::is_newline(c)).map(|i| i + text[i..].chars().next().map(|c| c.len_utf8()).unwrap_or(1)).unwrap_or(0);
                    if !text[line_start..start].chars().all(|c| c.is_whitespace()) {
                        *hit = true;
                    }
                }
            }
        }
        let mut hit = false;
        walk21(root, &mut 0, &text, &mut hit);
        if hit {
            add("F21");
        }
    }
    // F10: a blank line inside a list-like construct that is laid out on one line
    if any_node(root, &|n| {
        matches!(n.kind(), K::Args | K::Array | K::Dict | K::Params | K::Destructuring)
            && n.children().any(|c| c.kind() == K::Space && c.text().matches('\n').count() >= 2)
            && !n.children().nth(1).is_some_and(|c| c.kind() == K::Space && c.text().contains('\n'))
    }) {
        add("F10");
    }
    // F23: a multi-line node after `@typstyle off` in a context that is re-indented: only its
    // first line moves
    fn f23(n: &SyntaxNode) -> bool {
        let mut disable_next = false;
        for c in n.children() {
            let k = c.kind();
            if is_comment(k) {
                if c.text().contains("@typstyle off") {
                    disable_next = true;
                }
                continue;
            }
            if disable_next && !matches!(k, K::Space | K::Hash) {
                disable_next = false;
                if c.clone().into_text().contains('\n') {
                    return true;
                }
                continue;
            }
            if f23(c) {
                return true;
            }
        }
        false
    }
    if f23(root) {
        add("F23");
    }
    // F24: a line break next to a comment inside math delimiters is printed as a soft break
    if any_node(root, &|n| {
        n.kind() == K::MathDelimited && {
            let cs: Vec<&SyntaxNode> = n.children().collect();
            (0..cs.len()).any(|i| {
                is_comment(cs[i].kind())
                    && ((i > 0 && cs[i - 1].kind() == K::Space && cs[i - 1].text().contains('\n'))
                        || (i + 1 < cs.len() && cs[i + 1].kind() == K::Space && cs[i + 1].text().contains('\n')))
            }) || n.children().any(|m| {
                m.kind() == K::Math && {
                    let ms: Vec<&SyntaxNode> = m.children().collect();
                    (0..ms.len()).any(|i| {
                        is_comment(ms[i].kind())
                            && ((i > 0 && ms[i - 1].kind() == K::Space && ms[i - 1].text().contains('\n'))
                                || (i + 1 < ms.len() && ms[i + 1].kind() == K::Space && ms[i + 1].text().contains('\n')))
                    })
                }
            })
        }
    }) {
        add("F24");
    }
    // F26: 2-D math arguments (`mat(a, b; c, d)`): range formatting of a node inside an equation
    // does not suppress breaks as whole-document formatting does, and the `Never` layout of the
    // rows appends a separator (a cell is added, cf. F15)
    if any_node(root, &|n| n.kind() == K::Args && n.children().any(|c| c.kind() == K::Semicolon || c.kind() == K::Array)) {
        add("F26");
    }
    // F28: a reflowable `table`/`grid` call is always laid out over several lines, also on a prose line
    if any_node(root, &|n| {
        n.kind() == K::FuncCall && n.children().next().is_some_and(|c| c.kind() == K::Ident && (c.text() == "table" || c.text() == "grid"))
    }) {
        add("F28");
    }
    // F29: a parenthesised non-string literal directly followed by text that lexes into it once
    // the parentheses are dropped (`#(1)em`, `#(none)x`, `#(1).`, `(1.).abs()`)
    {
        fn inner_literal(n: &SyntaxNode) -> Option<&SyntaxNode> {
            if n.kind() != K::Parenthesized || n.children().any(|c| is_comment(c.kind())) {
                return None;
            }
            let e = n.children().find(|c| !matches!(c.kind(), K::LeftParen | K::RightParen | K::Space))?;
            match e.kind() {
                K::Int | K::Float | K::Numeric | K::Bool | K::None | K::Auto => Some(e),
                K::Parenthesized => inner_literal(e),
                _ => None,
            }
        }
        // (node, index of the first leaf after it)
        fn walk(n: &SyntaxNode, pos: &mut usize, out: &mut Vec<(K, String, usize)>) {
            if n.children().len() == 0 {
                *pos += 1;
                return;
            }
            let lit = inner_literal(n).map(|e| (e.kind(), e.text().to_string()));
            for c in n.children() {
                walk(c, pos, out);
            }
            if let Some((k, t)) = lit {
                out.push((k, t, *pos));
            }
        }
        let mut found29 = vec![];
        walk(root, &mut 0, &mut found29);
        for (k, t, next) in found29 {
            if let Some(l) = ls.get(next) {
                let c = l.text.chars().next().unwrap_or(' ');
                let word = c.is_alphanumeric() || c == '_';
                let hit = match k {
                    K::Bool | K::None | K::Auto => word || c == '-',
                    K::Numeric => word || c == '%',
                    _ => {
                        word || c == '%'
                            || (c == '.'
                                && (l.kind == K::Text
                                    || t.ends_with('.')
                                    || l.text.starts_with("..")
                                    || (l.kind == K::Dot && ls.get(next + 1).is_some_and(|f| f.kind != K::Ident))))
                    }
                };
                if hit {
                    add("F29");
                }
            }
        }
    }
    // F38: on a prose line (a markup line that contains text), embedded code that the printer
    // never lays out on one line: a code block with several statements or with a comment, an
    // import with an item list (break suppression is ignored there)
    {
        fn forces_break(n: &SyntaxNode) -> bool {
            let here = match n.kind() {
                K::CodeBlock => n.children().any(|c| {
                    is_comment(c.kind())
                        || (c.kind() == K::Code
                            && (c.children().any(|d| is_comment(d.kind()))
                                || c.children().filter(|d| !matches!(d.kind(), K::Space | K::Semicolon) && !is_comment(d.kind())).count() >= 2))
                }),
                K::ModuleImport => n.children().any(|c| c.kind() == K::ImportItems),
                _ => false,
            };
            here || n.children().any(forces_break)
        }
        fn prose(n: &SyntaxNode) -> bool {
            if n.kind() == K::Markup {
                let mut has_text = false;
                let mut forced = false;
                for c in n.children() {
                    let k = c.kind();
                    if k == K::Parbreak || (k == K::Space && c.text().chars().any(typst_syntax::is_newline)) {
                        if has_text && forced {
                            return true;
                        }
                        has_text = false;
                        forced = false;
                    } else {
                        has_text |= k == K::Text;
                        forced |= forces_break(c);
                    }
                }
                if has_text && forced {
                    return true;
                }
            }
            n.children().any(prose)
        }
        if prose(root) {
            add("F38");
        }
    }
    // F18: a line comment between the dot and the field of a field access
    if any_node(root, &|n| {
        n.kind() == K::FieldAccess && {
            let mut after_dot = false;
            let mut hit = false;
            for c in n.children() {
                after_dot |= c.kind() == K::Dot;
                hit |= after_dot && c.kind() == K::LineComment;
            }
            hit
        }
    }) {
        add("F18");
    }
    found
}

/// Properties whose oracle is not evaluated on an input with the given shape.
pub fn affects(id: &str, prop: &str) -> bool {
    let props: &[&str] = match id {
        "F4" => &["C10", "C01", "C02", "C13"],
        "F9" => &["C04", "C01", "C02", "C03", "C09", "C06", "C13", "C10"],
        "F15" => &["C03", "C01", "C02", "C09", "C04", "C13", "C06"],
        "F17" => &["C04", "C01", "C02", "C06", "C03", "C09", "C13", "C10", "C08"],
        "F7" => &["C12"],
        "F24" => &["C09"],
        "F28" => &["C08"],
        "F29" => &["C01", "C02", "C03", "C04", "C06", "C08", "C09", "C10", "C13"],
        "F38" => &["C08"],
        "F26" => &["C13"],
        "F21" => &["C01", "C02", "C03", "C08", "C13"],
        "F10" => &["C03"],
        "F18" => &["C04", "C01", "C02", "C03", "C13"],
        "F23" => &["C01", "C02", "C03", "C08", "C13"],
        _ => &[],
    };
    props.contains(&prop)
}

pub fn excluded(root: &SyntaxNode, prop: &str) -> Option<&'static str> {
    known_shapes(root).into_iter().find(|id| affects(id, prop))
}
