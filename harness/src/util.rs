//! Small helpers: PRNG, hex, JSON string escaping.
use std::fmt::Write;

/// splitmix64: every random choice of the harness derives from one of these states.
#[derive(Clone)]
pub struct Rng(pub u64);
impl Rng {
    pub fn new(seed: u64) -> Self {
        Rng(seed)
    }
    pub fn next(&mut self) -> u64 {
        self.0 = self.0.wrapping_add(0x9E3779B97F4A7C15);
        let mut z = self.0;
        z = (z ^ (z >> 30)).wrapping_mul(0xBF58476D1CE4E5B9);
        z = (z ^ (z >> 27)).wrapping_mul(0x94D049BB133111EB);
        z ^ (z >> 31)
    }
    pub fn below(&mut self, n: usize) -> usize {
        if n == 0 {
            0
        } else {
            (self.next() % (n as u64)) as usize
        }
    }
    pub fn chance(&mut self, num: usize, den: usize) -> bool {
        self.below(den) < num
    }
    pub fn pick<'a, T: ?Sized>(&mut self, v: &[&'a T]) -> &'a T {
        v[self.below(v.len())]
    }
}

pub fn mix(a: u64, b: u64) -> u64 {
    let mut r = Rng(a ^ b.wrapping_mul(0xD6E8FEB86659FD93));
    r.next()
}

pub fn hex(s: &str, out: &mut String) {
    if s.is_empty() {
        out.push('-');
    }
    for b in s.bytes() {
        write!(out, "{:02x}", b).unwrap();
    }
}
pub fn hexs(s: &str) -> String {
    let mut o = String::new();
    hex(s, &mut o);
    o
}
pub fn unhex(s: &str) -> Option<String> {
    if s == "-" {
        return Some(String::new());
    }
    let b = s.as_bytes();
    if b.len() % 2 != 0 {
        return None;
    }
    let mut v = Vec::with_capacity(b.len() / 2);
    for i in (0..b.len()).step_by(2) {
        let h = (b[i] as char).to_digit(16)?;
        let l = (b[i + 1] as char).to_digit(16)?;
        v.push((h * 16 + l) as u8);
    }
    String::from_utf8(v).ok()
}

pub fn jstr(s: &str) -> String {
    let mut o = String::with_capacity(s.len() + 2);
    o.push('"');
    for c in s.chars() {
        match c {
            '"' => o.push_str("\\\""),
            '\\' => o.push_str("\\\\"),
            '\n' => o.push_str("\\n"),
            '\r' => o.push_str("\\r"),
            '\t' => o.push_str("\\t"),
            c if (c as u32) < 0x20 || c == '\u{2028}' || c == '\u{2029}' || c == '\u{7f}' => {
                write!(o, "\\u{:04x}", c as u32).unwrap()
            }
            c => o.push(c),
        }
    }
    o.push('"');
    o
}
