//! Observation functions (what a property can see of a text) and the property oracles built
//! from them.  They use the real `typst-syntax` parser.
use crate::gens::Cfg;
use typst_syntax::{ast, Source, SyntaxKind as K, SyntaxNode};
use typstyle_core::Typstyle;

pub fn parse(text: &str) -> Source {
    Source::detached(text.to_string())
}
pub fn is_comment(k: K) -> bool {
    matches!(k, K::LineComment | K::BlockComment)
}

pub fn format(src: &str, cfg: Cfg) -> Result<String, String> {
    let s = src.to_string();
    match std::panic::catch_unwind(move || Typstyle::new(cfg.to_config()).format_content(s)) {
        Ok(Ok(o)) => Ok(o),
        Ok(Err(_)) => Err("refused".into()),
        Err(_) => Err("panic".into()),
    }
}

// ---------------------------------------------------------------------------------------------
// C01: canonical tree
// ---------------------------------------------------------------------------------------------
#[derive(Debug, PartialEq, Eq, Clone)]
pub enum C {
    Leaf(K, String),
    Ws,
    Par,
    Inner(K, Vec<C>),
    Raw(bool, Option<String>, Vec<String>),
}

pub fn canon(n: &SyntaxNode, parent: Option<K>, sort_imports: bool) -> Option<C> {
    let k = n.kind();
    if is_comment(k) {
        return None;
    }
    let space_sig = matches!(parent, Some(K::Markup) | Some(K::Math) | Some(K::Equation) | Some(K::MathDelimited));
    match k {
        K::Space => return if space_sig { Some(C::Ws) } else { None },
        K::Parbreak => return Some(C::Par),
        K::Comma if !matches!(parent, Some(K::Args)) => return None,
        K::Semicolon if matches!(parent, Some(K::Code) | Some(K::CodeBlock) | Some(K::Markup)) => return None,
        K::Raw => {
            let r: ast::Raw = n.cast().unwrap();
            return Some(C::Raw(
                r.block(),
                r.lang().map(|l| l.get().to_string()),
                r.lines().map(|l| l.get().to_string()).collect(),
            ));
        }
        _ => {}
    }
    if n.children().len() == 0 {
        if matches!(k, K::Markup | K::Math | K::Code) {
            return Some(C::Inner(k, vec![]));
        }
        return Some(C::Leaf(k, n.text().to_string()));
    }
    if k == K::Parenthesized {
        let inner: Vec<&SyntaxNode> = n
            .children()
            .filter(|c| !matches!(c.kind(), K::LeftParen | K::RightParen | K::Space) && !is_comment(c.kind()))
            .collect();
        if inner.len() == 1 {
            return canon(inner[0], parent, sort_imports);
        }
    }
    let mut kids: Vec<C> = vec![];
    let in_math_args = k == K::Args && n.children().any(|c| c.kind() == K::Math || c.kind() == K::Semicolon);
    let raw: Vec<&SyntaxNode> = n.children().collect();
    for (ci, c) in raw.iter().enumerate() {
        let c = *c;
        if k == K::Args && c.kind() == K::Comma && !in_math_args {
            continue;
        }
        // the terminator of a hashed expression (`#x;`) is an optional separator
        if c.kind() == K::Semicolon && ci >= 2 && raw[ci - 2].kind() == K::Hash && raw[ci - 1].is::<ast::Expr>() {
            continue;
        }
        if let Some(x) = canon(c, Some(k), sort_imports) {
            if x == C::Ws && matches!(kids.last(), Some(C::Ws) | Some(C::Par)) {
                continue;
            }
            if x == C::Par && kids.last() == Some(&C::Ws) {
                kids.pop();
            }
            kids.push(x);
        }
    }
    if k == K::Markup {
        let mut merged: Vec<C> = vec![];
        for c in kids.drain(..) {
            match (&c, merged.last_mut()) {
                (C::Leaf(K::Text, t), Some(C::Leaf(K::Text, acc))) => acc.push_str(t),
                (C::Ws, Some(C::Leaf(K::Text, acc))) => acc.push(' '),
                (C::Ws, _) => merged.push(C::Leaf(K::Text, " ".into())),
                _ => merged.push(c),
            }
        }
        if let Some(C::Leaf(K::Text, t)) = merged.first_mut() {
            *t = t.trim_start().to_string();
        }
        if let Some(C::Leaf(K::Text, t)) = merged.last_mut() {
            *t = t.trim_end().to_string();
        }
        merged.retain(|c| !matches!(c, C::Leaf(K::Text, t) if t.is_empty()));
        kids = merged;
        while matches!(kids.first(), Some(C::Ws) | Some(C::Par)) {
            kids.remove(0);
        }
        while matches!(kids.last(), Some(C::Ws) | Some(C::Par)) {
            kids.pop();
        }
    }
    if k == K::Equation {
        let block = n.cast::<ast::Equation>().map(|e| e.block()).unwrap_or(false);
        kids.retain(|c| !matches!(c, C::Ws));
        kids.insert(0, C::Leaf(K::Space, if block { "block".into() } else { "inline".into() }));
    }
    if matches!(k, K::Array | K::Dict | K::Args | K::Params | K::Destructuring) {
        kids.retain(|c| !matches!(c, C::Leaf(K::LeftParen, _) | C::Leaf(K::RightParen, _)));
    }
    if k == K::Dict {
        kids.retain(|c| !matches!(c, C::Leaf(K::Colon, _)));
    }
    if k == K::ModuleImport {
        kids.retain(|c| !matches!(c, C::Leaf(K::LeftParen, _) | C::Leaf(K::RightParen, _)));
    }
    if k == K::ImportItems && sort_imports {
        kids.sort_by_key(|c| format!("{:?}", c));
    }
    if k == K::Closure {
        if let Some(C::Inner(K::CodeBlock, b)) = kids.last().cloned() {
            let code: Vec<&C> =
                b.iter().filter(|c| !matches!(c, C::Leaf(K::LeftBrace, _) | C::Leaf(K::RightBrace, _))).collect();
            if code.len() == 1 {
                if let C::Inner(K::Code, e) = code[0] {
                    if e.len() == 1 {
                        let e0 = e[0].clone();
                        kids.pop();
                        kids.push(e0);
                    }
                }
            }
        }
    }
    Some(C::Inner(k, kids))
}

pub fn first_diff(a: &C, b: &C, path: &mut Vec<String>) -> Option<String> {
    match (a, b) {
        (C::Inner(k1, c1), C::Inner(k2, c2)) if k1 == k2 => {
            path.push(format!("{:?}", k1));
            for (x, y) in c1.iter().zip(c2.iter()) {
                if let Some(d) = first_diff(x, y, path) {
                    return Some(d);
                }
            }
            if c1.len() != c2.len() {
                return Some(format!(
                    "{} len {} vs {}: {} || {}",
                    path.join("/"),
                    c1.len(),
                    c2.len(),
                    short(c1.get(c2.len().min(c1.len()))),
                    short(c2.get(c1.len().min(c2.len())))
                ));
            }
            path.pop();
            None
        }
        _ => {
            if a == b {
                None
            } else {
                Some(format!("{}: {} vs {}", path.join("/"), short(Some(a)), short(Some(b))))
            }
        }
    }
}
fn short(c: Option<&C>) -> String {
    let s = format!("{:?}", c);
    s.chars().take(120).collect()
}

pub fn obs_c01(text: &str, reorder: bool) -> String {
    let s = parse(text);
    if s.root().erroneous() {
        return "ERRONEOUS".into();
    }
    format!("{:?}", canon(s.root(), None, reorder))
}

pub fn check_c01(src: &Source, out: &str, cfg: Cfg) -> Option<String> {
    let s2 = parse(out);
    if s2.root().erroneous() {
        return Some("output has syntax errors".into());
    }
    let c0 = canon(src.root(), None, cfg.reorder)?;
    let c1 = canon(s2.root(), None, cfg.reorder)?;
    if c0 != c1 {
        return Some(first_diff(&c0, &c1, &mut vec![]).unwrap_or_else(|| "trees differ".into()));
    }
    None
}

// ---------------------------------------------------------------------------------------------
// C06: comments and their neighbouring words
// ---------------------------------------------------------------------------------------------
fn norm_comment(t: &str) -> String {
    t.lines().map(|l| l.trim()).collect::<Vec<_>>().join("\n")
}

fn is_word_leaf(k: K, parent: Option<K>) -> bool {
    match k {
        K::Ident | K::MathIdent | K::Text | K::MathText | K::Str | K::Int | K::Float | K::Numeric | K::Bool | K::None
        | K::Auto | K::Label | K::RefMarker | K::Link | K::Escape | K::Shorthand | K::MathShorthand | K::RawLang | K::SmartQuote => true,
        K::Not => parent != Some(K::Binary),
        K::And | K::Or | K::In | K::As => false,
        k if k.is_keyword() => true,
        _ => false,
    }
}

fn walk_c06(n: &SyntaxNode, parent: Option<K>, segs: &mut Vec<String>) {
    let k = n.kind();
    if is_comment(k) {
        segs.push(format!("\u{1}{}", norm_comment(n.text())));
        segs.push(String::new());
        return;
    }
    if k == K::Raw {
        let t: String = n.clone().into_text().chars().filter(|c| !c.is_whitespace()).collect();
        segs.last_mut().unwrap().push_str(&t);
        return;
    }
    if n.children().len() == 0 {
        if is_word_leaf(k, parent) {
            let t: String = n.text().chars().filter(|c| !c.is_whitespace()).collect();
            let last = segs.last_mut().unwrap();
            last.push_str(&t);
            last.push('\u{2}');
        }
        return;
    }
    for c in n.children() {
        walk_c06(c, Some(k), segs);
    }
}

pub fn obs_c06(text: &str) -> String {
    let s = parse(text);
    let mut segs = vec![String::new()];
    walk_c06(s.root(), None, &mut segs);
    // markup text may be re-tokenised: drop the token separators inside a segment
    let segs: Vec<String> = segs.into_iter().map(|s| if s.starts_with('\u{1}') { s } else { s.replace('\u{2}', "") }).collect();
    segs.join("\u{3}")
}

pub fn check_c06(src: &str, out: &str) -> Option<String> {
    let a = obs_c06(src);
    let b = obs_c06(out);
    if a != b {
        let av: Vec<&str> = a.split('\u{3}').collect();
        let bv: Vec<&str> = b.split('\u{3}').collect();
        for (i, (x, y)) in av.iter().zip(bv.iter()).enumerate() {
            if x != y {
                return Some(format!("comment/word segment {} differs: {:?} vs {:?}", i, x, y));
            }
        }
        return Some(format!("comment count differs: {} vs {} segments", av.len(), bv.len()));
    }
    None
}

// ---------------------------------------------------------------------------------------------
// C07: nodes after `@typstyle off`
// ---------------------------------------------------------------------------------------------
fn strip_line_ends(t: &str) -> String {
    t.split('\n').map(|l| l.trim_end()).collect::<Vec<_>>().join("\n")
}

fn walk_c07(n: &SyntaxNode, under: bool, acc: &mut Vec<String>) {
    let mut disable_next = false;
    for c in n.children() {
        let k = c.kind();
        if is_comment(k) {
            if !under && c.text().contains("@typstyle off") {
                disable_next = true;
                acc.push(format!("D:{}", norm_comment(c.text())));
            }
            continue;
        }
        if !under && disable_next && !matches!(k, K::Space | K::Hash) {
            disable_next = false;
            if c.is::<ast::Expr>() || k == K::Code || k == K::Math {
                acc.push(format!("N:{}", strip_line_ends(&c.clone().into_text())));
            } else {
                acc.push("N?".into());
            }
            // attr.rs does not descend into a disabled node
            continue;
        }
        walk_c07(c, under, acc);
    }
}

pub fn obs_c07(text: &str) -> String {
    let s = parse(text);
    let mut acc = vec![];
    walk_c07(s.root(), false, &mut acc);
    acc.join("\u{3}")
}

pub fn check_c07(src: &str, out: &str) -> Option<String> {
    let a = obs_c07(src);
    if a.is_empty() {
        return None;
    }
    let b = obs_c07(out);
    let av: Vec<&str> = a.split('\u{3}').collect();
    let bv: Vec<&str> = b.split('\u{3}').collect();
    // every guaranteed node text (N:) must also occur literally in the output
    for x in &av {
        if let Some(t) = x.strip_prefix("N:") {
            if !strip_line_ends(out).contains(t) {
                return Some(format!("text of the node after the directive does not occur in the output: {:?}", t));
            }
        }
    }
    // the directives themselves are kept, in order
    let da: Vec<&&str> = av.iter().filter(|x| x.starts_with("D:")).collect();
    let db: Vec<&&str> = bv.iter().filter(|x| x.starts_with("D:")).collect();
    if da != db {
        return Some(format!("directive comments differ: {:?} vs {:?}", da, db));
    }
    None
}

// ---------------------------------------------------------------------------------------------
// C08: markup
// ---------------------------------------------------------------------------------------------
fn walk_c08(n: &SyntaxNode, acc: &mut Vec<String>) {
    if n.kind() == K::Markup {
        let mut s = String::new();
        for c in n.children() {
            match c.kind() {
                K::Space => s.push(if c.text().chars().any(typst_syntax::is_newline) { '\n' } else { ' ' }),
                K::Parbreak => {
                    let mut cnt = 0;
                    let mut prev_cr = false;
                    for ch in c.text().chars() {
                        if typst_syntax::is_newline(ch) && !(prev_cr && ch == '\n') {
                            cnt += 1;
                        }
                        prev_cr = ch == '\r';
                    }
                    s.push('\u{4}');
                    s.push_str(&cnt.to_string());
                    s.push('\u{4}');
                }
                K::Text | K::Escape | K::Shorthand | K::SmartQuote | K::Link | K::Label | K::Linebreak => s.push_str(c.text()),
                K::Ref => {
                    for g in c.children() {
                        if g.kind() == K::RefMarker {
                            s.push_str(g.text());
                        } else {
                            s.push('\u{1}');
                        }
                    }
                }
                k if is_comment(k) => s.push('\u{2}'),
                K::Hash => s.push('#'),
                K::Semicolon => {}
                _ => s.push('\u{1}'),
            }
        }
        // comments may move across punctuation (C06); white space next to them is not prose
        while s.contains(" \u{2}") || s.contains("\u{2} ") {
            s = s.replace(" \u{2}", "\u{2}").replace("\u{2} ", "\u{2}");
        }
        let s = s.replace('\u{2}', "");
        // outer edges may change
        let t = s.trim_matches(|c: char| c == ' ' || c == '\n').to_string();
        let t = trim_par_edges(&t);
        acc.push(t);
    }
    for c in n.children() {
        walk_c08(c, acc);
    }
}
fn trim_par_edges(s: &str) -> String {
    // a paragraph break at the outer edge is white space at the outer edge
    let mut t = s.to_string();
    loop {
        let before = t.len();
        if t.starts_with('\u{4}') {
            if let Some(p) = t[1..].find('\u{4}') {
                t = t[p + 2..].to_string();
            }
        }
        if t.ends_with('\u{4}') {
            if let Some(p) = t[..t.len() - 1].rfind('\u{4}') {
                t = t[..p].to_string();
            }
        }
        t = t.trim_matches(|c: char| c == ' ' || c == '\n').to_string();
        if t.len() == before {
            break;
        }
    }
    t
}

/// Physical extent of every markup-level line that holds prose: for each `Markup` node, its children
/// are split at white space that contains a line break; a line that contains a `Text` child is
/// recorded as "1" if it occupies one physical line of `text`, "n" otherwise.
fn walk_c08_lines(n: &typst_syntax::LinkedNode, text: &str, acc: &mut Vec<String>) {
    if n.kind() == K::Markup {
        let mut s = String::new();
        let mut start: Option<usize> = None;
        let mut end = 0usize;
        let mut has_text = false;
        let mut flush = |s: &mut String, start: &mut Option<usize>, end: usize, has_text: &mut bool| {
            if let Some(a) = *start {
                if *has_text {
                    s.push(if text[a..end].contains('\n') || text[a..end].chars().any(typst_syntax::is_newline) { 'n' } else { '1' });
                }
            }
            *start = None;
            *has_text = false;
        };
        for c in n.children() {
            let k = c.kind();
            let brk = k == K::Parbreak || (k == K::Space && c.text().chars().any(typst_syntax::is_newline));
            if brk {
                flush(&mut s, &mut start, end, &mut has_text);
            } else if k != K::Space {
                if start.is_none() {
                    start = Some(c.range().start);
                }
                end = c.range().end;
                if k == K::Text {
                    has_text = true;
                }
            }
        }
        flush(&mut s, &mut start, end, &mut has_text);
        acc.push(s);
    }
    for c in n.children() {
        walk_c08_lines(&c, text, acc);
    }
}

pub fn obs_c08_lines(text: &str) -> Vec<String> {
    let s = parse(text);
    let mut acc = vec![];
    walk_c08_lines(&typst_syntax::LinkedNode::new(s.root()), text, &mut acc);
    acc
}

pub fn obs_c08(text: &str) -> String {
    let s = parse(text);
    let mut acc = vec![];
    walk_c08(s.root(), &mut acc);
    acc.join("\u{3}")
}

pub fn check_c08(src: &str, out: &str) -> Option<String> {
    let a = obs_c08(src);
    let b = obs_c08(out);
    if a != b {
        let av: Vec<&str> = a.split('\u{3}').collect();
        let bv: Vec<&str> = b.split('\u{3}').collect();
        for (i, (x, y)) in av.iter().zip(bv.iter()).enumerate() {
            if x != y {
                return Some(format!("markup node {} differs: {:?} vs {:?}", i, x, y));
            }
        }
        return Some(format!("number of markup nodes differs: {} vs {}", av.len(), bv.len()));
    }
    // a prose line that was one physical line stays one physical line
    let la = obs_c08_lines(src);
    let lb = obs_c08_lines(out);
    if la.len() == lb.len() {
        for (i, (x, y)) in la.iter().zip(lb.iter()).enumerate() {
            if x.len() == y.len() {
                for (j, (p, q)) in x.chars().zip(y.chars()).enumerate() {
                    if p == '1' && q != '1' {
                        return Some(format!("markup node {}: prose line {} was on one line and is now spread over several", i, j));
                    }
                }
            }
        }
    }
    None
}

// ---------------------------------------------------------------------------------------------
// C09: white space in math
// ---------------------------------------------------------------------------------------------
fn ws_class(c: &SyntaxNode) -> char {
    if c.text().chars().any(typst_syntax::is_newline) {
        '/'
    } else {
        '_'
    }
}

fn ser_math(n: &SyntaxNode, out: &mut String) {
    let k = n.kind();
    match k {
        K::Math | K::MathDelimited => {
            out.push_str(if k == K::Math { "M[" } else { "D[" });
            let mut after_hash = false;
            let mut after_code = false;
            for c in n.children() {
                if c.kind() == K::Space {
                    out.push(ws_class(c));
                } else if after_hash {
                    // embedded code: formatted as code, not math
                    out.push_str("code");
                    after_hash = false;
                    after_code = true;
                } else if after_code && c.kind() == K::Semicolon {
                    after_code = false;
                } else {
                    after_code = false;
                    after_hash = c.kind() == K::Hash;
                    ser_math(c, out);
                }
            }
            out.push(']');
        }
        K::MathAttach | K::MathFrac | K::MathRoot | K::MathPrimes => {
            // white space directly around `_ ^ / √` is exempt
            out.push_str("A[");
            let mut after_hash = false;
            let mut after_code = false;
            for c in n.children() {
                if c.kind() == K::Space {
                } else if after_hash {
                    out.push_str("code");
                    after_hash = false;
                    after_code = true;
                } else if after_code && c.kind() == K::Semicolon {
                    // the terminator of the hashed expression: an optional separator
                    after_code = false;
                } else {
                    after_code = false;
                    after_hash = c.kind() == K::Hash;
                    ser_math(c, out);
                }
            }
            out.push(']');
        }
        K::FuncCall | K::Args | K::Named | K::Spread | K::FieldAccess => {
            // a math function call: padding inside the parentheses and around separators is exempt
            out.push_str("F[");
            let mut after_hash = false;
            let mut after_code = false;
            for c in n.children() {
                if c.kind() == K::Space {
                } else if after_hash {
                    out.push_str("code");
                    after_hash = false;
                    after_code = true;
                } else if after_code && c.kind() == K::Semicolon {
                    // the terminator of the hashed expression: an optional separator
                    after_code = false;
                } else {
                    after_code = false;
                    after_hash = c.kind() == K::Hash;
                    ser_math(c, out);
                }
            }
            out.push(']');
        }
        _ if is_comment(k) => out.push('c'),
        _ => {
            if n.children().len() == 0 {
                out.push_str(n.text());
                out.push('\u{2}');
            } else {
                // embedded code / content: not math, not descended into
                out.push('#');
            }
        }
    }
}

fn walk_c09(n: &SyntaxNode, acc: &mut Vec<String>) {
    if n.kind() == K::Equation {
        // at the edges of an equation only the presence of white space matters (block/inline)
        let block = n.cast::<ast::Equation>().map(|e| e.block()).unwrap_or(false);
        let mut body = String::new();
        let mut empty = true;
        for c in n.children() {
            match c.kind() {
                K::Space | K::Dollar => {}
                k if is_comment(k) => body.push('c'),
                _ => {
                    if c.children().any(|g| g.kind() != K::Space && !is_comment(g.kind())) || (c.children().len() == 0 && !c.text().is_empty()) {
                        empty = false;
                    }
                    ser_math(c, &mut body)
                }
            }
        }
        let s = if empty { "E[empty]".to_string() } else { format!("E[{}{}]", if block { "B" } else { "I" }, body) };
        acc.push(s);
    }
    for c in n.children() {
        walk_c09(c, acc);
    }
}

pub fn obs_c09(text: &str) -> String {
    let s = parse(text);
    let mut acc = vec![];
    walk_c09(s.root(), &mut acc);
    acc.join("\u{3}")
}

pub fn check_c09(src: &str, out: &str) -> Option<String> {
    let a = obs_c09(src);
    let b = obs_c09(out);
    if a != b {
        let av: Vec<&str> = a.split('\u{3}').collect();
        let bv: Vec<&str> = b.split('\u{3}').collect();
        for (i, (x, y)) in av.iter().zip(bv.iter()).enumerate() {
            if x != y {
                return Some(format!("equation {} differs: {:?} vs {:?}", i, x, y));
            }
        }
        return Some(format!("number of equations differs: {} vs {}", av.len(), bv.len()));
    }
    None
}

// ---------------------------------------------------------------------------------------------
// C10: literals
// ---------------------------------------------------------------------------------------------
fn walk_c10(n: &SyntaxNode, acc: &mut Vec<String>) {
    let k = n.kind();
    match k {
        K::Raw => {
            let r: ast::Raw = n.cast().unwrap();
            let fence = n.children().find(|c| c.kind() == K::RawDelim).map(|c| c.text().len()).unwrap_or(0);
            acc.push(format!(
                "raw:{}:{}:{:?}:{:?}",
                r.block(),
                fence,
                r.lang().map(|l| l.get().to_string()),
                r.lines().map(|l| l.get().to_string()).collect::<Vec<_>>()
            ));
            return;
        }
        K::Str | K::Int | K::Float | K::Numeric | K::Ident | K::MathIdent | K::Label | K::RefMarker | K::Link | K::Escape | K::Bool => {
            acc.push(format!("{:?}:{}", k, n.text()));
        }
        _ => {}
    }
    for c in n.children() {
        walk_c10(c, acc);
    }
}
pub fn obs_c10(text: &str, reorder: bool) -> String {
    let s = parse(text);
    let mut acc = vec![];
    walk_c10(s.root(), &mut acc);
    if reorder {
        acc.sort();
    }
    acc.join("\u{3}")
}
pub fn check_c10(src: &str, out: &str, cfg: Cfg) -> Option<String> {
    let a = obs_c10(src, cfg.reorder);
    let b = obs_c10(out, cfg.reorder);
    if a != b {
        let av: Vec<&str> = a.split('\u{3}').collect();
        let bv: Vec<&str> = b.split('\u{3}').collect();
        for (i, (x, y)) in av.iter().zip(bv.iter()).enumerate() {
            if x != y {
                return Some(format!("literal {} differs: {:?} vs {:?}", i, x, y));
            }
        }
        return Some(format!("number of literals differs: {} vs {}", av.len(), bv.len()));
    }
    None
}

// ---------------------------------------------------------------------------------------------
// C11: hygiene
// ---------------------------------------------------------------------------------------------
pub fn check_c11(out: &str) -> Option<String> {
    if out.is_empty() {
        return Some("output is empty".into());
    }
    if !out.ends_with('\n') {
        return Some("output does not end with a line feed".into());
    }
    for (i, l) in out.split('\n').enumerate() {
        if let Some(c) = l.chars().last() {
            if c.is_whitespace() {
                return Some(format!("line {} ends with blank U+{:04X}", i + 1, c as u32));
            }
        }
    }
    None
}
pub fn obs_c11(out: &str) -> String {
    format!("{:?}", check_c11(out))
}

// ---------------------------------------------------------------------------------------------
// C12: indentation
// ---------------------------------------------------------------------------------------------
/// Lines (0-based) of `text` whose start lies inside a multi-line leaf (comment, string, raw) or
/// inside a node following an `@typstyle off` directive: their indentation is copied.
pub fn exempt_lines(text: &str) -> Vec<bool> {
    let s = parse(text);
    let nlines = text.split('\n').count();
    let mut ex = vec![false; nlines + 1];
    let line_of = |off: usize| text[..off].matches('\n').count();
    fn go(n: &SyntaxNode, off: &mut usize, under: bool, ex: &mut Vec<bool>, line_of: &dyn Fn(usize) -> usize) {
        let k = n.kind();
        let len = n.len();
        let copied = under || (n.children().len() == 0 && matches!(k, K::BlockComment | K::Str | K::Text | K::RawTrimmed | K::Raw | K::Space | K::Parbreak) && false);
        if n.children().len() == 0 || k == K::Raw {
            if under || matches!(k, K::BlockComment | K::Str | K::Raw) {
                let a = line_of(*off);
                let b = line_of(*off + len);
                for l in a + 1..=b {
                    if l < ex.len() {
                        ex[l] = true;
                    }
                }
            }
            let _ = copied;
            *off += len;
            return;
        }
        let mut disable_next = false;
        for c in n.children() {
            let ck = c.kind();
            if is_comment(ck) {
                if c.text().contains("@typstyle off") {
                    disable_next = true;
                    // the directive's own line up to the disabled node is copied too
                    let l = line_of(*off);
                    if l < ex.len() {
                        ex[l] = true;
                    }
                }
                go(c, off, under, ex, line_of);
                continue;
            }
            if disable_next && matches!(ck, K::Space | K::Hash) {
                go(c, off, true, ex, line_of);
                continue;
            }
            if disable_next {
                disable_next = false;
                let a = line_of(*off);
                if a < ex.len() {
                    ex[a] = true;
                }
                go(c, off, true, ex, line_of);
                continue;
            }
            go(c, off, under, ex, line_of);
        }
    }
    let mut off = 0;
    go(s.root(), &mut off, false, &mut ex, &line_of);
    ex
}

fn lead(l: &str) -> usize {
    l.chars().take_while(|c| *c == ' ').count()
}

pub fn obs_c12(out: &str) -> String {
    let ex = exempt_lines(out);
    out.split('\n').enumerate().map(|(i, l)| if ex[i] { "x".to_string() } else { lead(l).to_string() }).collect::<Vec<_>>().join(",")
}

/// Compare outputs at unit 1 and unit `u` (both at a non-wrapping width).
pub fn check_c12_pair(out1: &str, outu: &str, u: usize) -> Option<String> {
    let l1: Vec<&str> = out1.split('\n').collect();
    let lu: Vec<&str> = outu.split('\n').collect();
    if l1.len() != lu.len() {
        return Some(format!("line count differs between unit 1 ({}) and unit {} ({})", l1.len(), u, lu.len()));
    }
    let ex1 = exempt_lines(out1);
    let exu = exempt_lines(outu);
    for i in 0..l1.len() {
        let (a, b) = (l1[i], lu[i]);
        if ex1[i] || exu[i] {
            if a.trim_start_matches(' ') != b.trim_start_matches(' ') {
                return Some(format!("exempt line {} differs beyond leading blanks: {:?} vs {:?}", i + 1, a, b));
            }
            continue;
        }
        if a.trim_start_matches(' ') != b.trim_start_matches(' ') {
            return Some(format!("line {} differs beyond leading blanks: {:?} vs {:?}", i + 1, a, b));
        }
        if lead(b) != u * lead(a) {
            return Some(format!("line {}: {} leading blanks at unit 1, {} at unit {} ({:?})", i + 1, lead(a), lead(b), u, b));
        }
    }
    None
}

// ---------------------------------------------------------------------------------------------
// C19: imports
// ---------------------------------------------------------------------------------------------
pub struct Import {
    pub items: Vec<String>,
    pub raw: Vec<String>,
    pub bound: Vec<String>,
    pub has_comment: bool,
}
fn squeeze(n: &SyntaxNode) -> String {
    // item as its non-trivia tokens
    let mut toks: Vec<String> = vec![];
    fn go(n: &SyntaxNode, toks: &mut Vec<String>) {
        if is_comment(n.kind()) || n.kind() == K::Space {
            return;
        }
        if n.children().len() == 0 {
            toks.push(n.text().to_string());
        }
        for c in n.children() {
            go(c, toks);
        }
    }
    go(n, &mut toks);
    toks.join(" ")
}
fn walk_imports(n: &SyntaxNode, acc: &mut Vec<Import>) {
    if n.kind() == K::ModuleImport {
        let mut imp = Import { items: vec![], raw: vec![], bound: vec![], has_comment: false };
        let mut after_div = false;
        for c in n.children() {
            if c.kind() == K::LeftParen || c.kind() == K::ImportItems {
                after_div = true;
            }
            if after_div && is_comment(c.kind()) {
                imp.has_comment = true;
            }
            if c.kind() == K::ImportItems {
                for it in c.children() {
                    match it.kind() {
                        K::ImportItemPath => {
                            imp.items.push(squeeze(it));
                            imp.raw.push(it.clone().into_text().to_string());
                            if let Some(p) = it.cast::<ast::ImportItemPath>() {
                                imp.bound.push(p.name().as_str().to_string());
                            }
                        }
                        K::RenamedImportItem => {
                            imp.items.push(squeeze(it));
                            imp.raw.push(it.clone().into_text().to_string());
                            if let Some(p) = it.cast::<ast::RenamedImportItem>() {
                                imp.bound.push(p.new_name().as_str().to_string());
                            }
                        }
                        k if is_comment(k) => imp.has_comment = true,
                        _ => {}
                    }
                }
            }
        }
        acc.push(imp);
    }
    for c in n.children() {
        walk_imports(c, acc);
    }
}
pub fn imports(text: &str) -> Vec<Import> {
    let s = parse(text);
    let mut acc = vec![];
    walk_imports(s.root(), &mut acc);
    acc
}
pub fn obs_c19(text: &str) -> String {
    imports(text).iter().map(|i| i.items.join(",")).collect::<Vec<_>>().join("\u{3}")
}

fn non_import_tokens(text: &str) -> Vec<String> {
    let s = parse(text);
    let mut acc = vec![];
    fn go(n: &SyntaxNode, acc: &mut Vec<String>) {
        if n.kind() == K::ImportItems {
            let mut items: Vec<String> = n
                .children()
                .filter(|c| matches!(c.kind(), K::ImportItemPath | K::RenamedImportItem))
                .map(squeeze)
                .collect();
            items.sort();
            acc.push(format!("ITEMS{:?}", items));
            return;
        }
        if n.kind() == K::Space {
            return;
        }
        if n.kind() == K::ModuleImport {
            // delimiters and trailing comma of the item list may depend on the layout
            for c in n.children() {
                if !matches!(c.kind(), K::LeftParen | K::RightParen | K::Comma) {
                    go(c, acc);
                }
            }
            return;
        }
        if n.children().len() == 0 {
            acc.push(n.text().to_string());
        }
        for c in n.children() {
            go(c, acc);
        }
    }
    go(s.root(), &mut acc);
    acc
}

/// `out_off` / `out_on`: outputs of the same source with reordering off / on.
pub fn check_c19(src: &str, out_off: &str, out_on: &str) -> Option<String> {
    if src.contains("@typstyle off") {
        // the escape hatch (C07) takes precedence over reordering
        return None;
    }
    let s = imports(src);
    let off = imports(out_off);
    let on = imports(out_on);
    if s.len() != off.len() || s.len() != on.len() {
        return Some(format!("number of import statements differs: {} / {} / {}", s.len(), off.len(), on.len()));
    }
    for i in 0..s.len() {
        if s[i].items != off[i].items {
            return Some(format!("reordering off, import {}: items {:?} became {:?}", i, s[i].items, off[i].items));
        }
        let mut a = s[i].items.clone();
        let mut b = on[i].items.clone();
        a.sort();
        b.sort();
        if a != b {
            return Some(format!("reordering on, import {}: items are not a permutation: {:?} vs {:?}", i, s[i].items, on[i].items));
        }
        let mut names = s[i].bound.clone();
        names.sort();
        let dup = names.windows(2).any(|w| w[0] == w[1]);
        if s[i].has_comment || dup {
            if on[i].items != s[i].items {
                return Some(format!(
                    "reordering on, import {} has {}: order must be kept, {:?} became {:?}",
                    i,
                    if dup { "duplicate names" } else { "comments" },
                    s[i].items,
                    on[i].items
                ));
            }
        } else {
            let mut used = vec![false; s[i].items.len()];
            let keys: Vec<String> = on[i]
                .items
                .iter()
                .map(|it| {
                    let j = (0..s[i].items.len()).find(|&j| !used[j] && &s[i].items[j] == it).unwrap_or(0);
                    used[j] = true;
                    // the sort key is the item's text with the spacing the formatter gives it
                    let mut key = String::new();
                    for w in s[i].raw[j].split_whitespace() {
                        if !key.is_empty() && !key.ends_with('.') && !w.starts_with('.') {
                            key.push(' ');
                        }
                        key.push_str(w);
                    }
                    key
                })
                .collect();
            let sorted = keys.windows(2).all(|w| w[0].as_bytes() <= w[1].as_bytes());
            if !sorted {
                return Some(format!("reordering on, import {}: items not sorted: {:?}", i, on[i].items));
            }
        }
    }
    let t_off = non_import_tokens(out_off);
    let t_on = non_import_tokens(out_on);
    if t_off != t_on {
        for (i, (x, y)) in t_off.iter().zip(t_on.iter()).enumerate() {
            if x != y {
                return Some(format!("outside the import items the outputs differ at token {}: {:?} vs {:?}", i, x, y));
            }
        }
        return Some("outside the import items the outputs differ in length".into());
    }
    None
}
