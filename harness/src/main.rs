//! `vh` — verification harness linked against the working tree of /repo.
mod gens;
mod obs;
mod ser;
mod util;
mod other;
mod cli;
mod shapes;

use gens::*;
use std::collections::{BTreeMap, HashSet};
use std::fmt::Write as _;
use std::io::Write as _;
use typst_syntax::Source;
use typstyle_core::Typstyle;
use util::*;

pub const FIXTURE_ROOT: &str = "/repo/tests/fixtures";

pub struct Obsv {
    pub doc: String,
    pub out: String,
    pub count: u64,
}

/// Run the implementation once: `Doc` (serialised), output text, conversion counter.
pub fn observe(source: &Source, cfg: Cfg) -> Result<Obsv, String> {
    let mut d = String::new();
    let mut ok = true;
    typstyle_core::verif::reset_conversions();
    let r = std::panic::catch_unwind(std::panic::AssertUnwindSafe(|| {
        Typstyle::new(cfg.to_config()).format_source_inspect(source, |doc| {
            ok = ser::ser_doc(&doc.1, &mut d);
        })
    }));
    let count = typstyle_core::verif::conversions();
    match r {
        Ok(Ok(out)) => {
            if !ok {
                return Err("unserialisable doc".into());
            }
            Ok(Obsv { doc: d, out, count })
        }
        Ok(Err(_)) => Err("refused".into()),
        Err(_) => Err("panic".into()),
    }
}

#[derive(Default)]
pub struct Stats {
    pub evaluated: u64,
    pub erroneous: u64,
    pub failures: u64,
    pub by_gen: BTreeMap<String, u64>,
    pub features: BTreeMap<String, u64>,
    pub distinct: HashSet<u64>,
    pub nontrivial: HashSet<u64>,
    pub samples: Vec<String>,
    pub sizes: BTreeMap<String, u64>,
    pub oracle_evals: u64,
}
impl Stats {
    pub fn merge_pub(&mut self, o: Stats) {
        self.merge(o)
    }
    fn merge(&mut self, o: Stats) {
        self.evaluated += o.evaluated;
        self.erroneous += o.erroneous;
        self.failures += o.failures;
        self.oracle_evals += o.oracle_evals;
        for (k, v) in o.by_gen {
            *self.by_gen.entry(k).or_default() += v;
        }
        for (k, v) in o.features {
            *self.features.entry(k).or_default() += v;
        }
        for (k, v) in o.sizes {
            *self.sizes.entry(k).or_default() += v;
        }
        self.distinct.extend(o.distinct);
        self.nontrivial.extend(o.nontrivial);
        if self.samples.len() < 6 {
            self.samples.extend(o.samples.into_iter().take(2));
        }
    }
    pub fn to_json(&self) -> String {
        let m = |b: &BTreeMap<String, u64>| {
            format!("{{{}}}", b.iter().map(|(k, v)| format!("{}:{}", jstr(k), v)).collect::<Vec<_>>().join(","))
        };
        format!(
            "{{\"evaluated\":{},\"erroneous_skipped\":{},\"failures\":{},\"oracle_evaluations\":{},\"distinct_sources\":{},\"distinct_nontrivial\":{},\"by_generator\":{},\"features\":{},\"sizes\":{},\"samples\":[{}]}}",
            self.evaluated,
            self.erroneous,
            self.failures,
            self.oracle_evals,
            self.distinct.len(),
            self.nontrivial.len(),
            m(&self.by_gen),
            m(&self.features),
            m(&self.sizes),
            self.samples.iter().map(|s| jstr(s)).collect::<Vec<_>>().join(",")
        )
    }
}

pub fn hash_str_pub(s: &str) -> u64 {
    hash_str(s)
}
fn hash_str(s: &str) -> u64 {
    let mut h = 0xcbf29ce484222325u64;
    for b in s.bytes() {
        h ^= b as u64;
        h = h.wrapping_mul(0x100000001b3);
    }
    h
}

pub struct CaseRef {
    pub gen: &'static str,
    pub idx: u64,
}

pub fn make_case(c: &CaseRef, fx: &Fixtures) -> Option<(String, Cfg, String)> {
    match c.gen {
        "fix" => {
            let item = (c.idx / FIX_CFGS as u64) as usize;
            let k = (c.idx % FIX_CFGS as u64) as usize;
            let (name, src) = fx.items.get(item)?;
            Some((src.clone(), fix_cfg(k), name.clone()))
        }
        "gram" => {
            let (s, cfg, used) = gram_case(c.idx);
            Some((s, cfg, used.join(" ")))
        }
        "exh" => {
            let (s, cfg, d) = exh_case(c.idx);
            Some((s, cfg, d))
        }
        "nest" => {
            let (s, cfg, d) = nest_case(c.idx);
            Some((s, cfg, d))
        }
        "tab" => {
            let (s, cfg, d) = tab_case(c.idx);
            Some((s, cfg, d))
        }
        "raw" => {
            let (s, cfg, d) = raw_case(c.idx);
            Some((s, cfg, d))
        }
        "exh2" => {
            let (s, cfg, d) = exh2_case(c.idx);
            Some((s, cfg, d))
        }
        "imp" => {
            let (s, cfg) = imp_case(c.idx);
            Some((s, cfg, "import".into()))
        }
        "nl" => {
            let (s, cfg, used) = nl_case(c.idx);
            Some((s, cfg, used.join(" ")))
        }
        "mal" => {
            let (s, cfg) = mal_case(c.idx, fx);
            Some((s, cfg, "mal".into()))
        }
        "mut" => Some(mut_case(c.idx, fx)),
        "corp" => {
            // the regression corpus: demonstration inputs of the seeded changes, the failing inputs
            // the checks found for them, witnesses of the repaired findings (/verif/corpus)
            let cx = corpus();
            let item = (c.idx / FIX_CFGS as u64) as usize;
            let k = (c.idx % FIX_CFGS as u64) as usize;
            let (name, src) = cx.items.get(item)?;
            Some((src.clone(), fix_cfg(k), name.clone()))
        }
        _ => None,
    }
}

pub fn corpus() -> &'static Fixtures {
    static C: std::sync::OnceLock<Fixtures> = std::sync::OnceLock::new();
    C.get_or_init(|| Fixtures::load(concat!(env!("CARGO_MANIFEST_DIR"), "/../corpus"), false))
}

pub fn universe_size(gen: &str, fx: &Fixtures) -> u64 {
    match gen {
        "corp" => (corpus().items.len() * FIX_CFGS) as u64,
        "fix" => (fx.items.len() * FIX_CFGS) as u64,
        "gram" => GRAM_U,
        "exh" => exh_universe(),
        "imp" => IMP_U,
        "nest" => nest_universe(),
        "tab" => tab_universe(),
        "raw" => raw_universe(),
        "exh2" => exh2_universe(),
        "nl" => NL_U,
        "mal" => MAL_U,
        "mut" => MUT_U,
        "range" => other::RANGE_U,
        "cli" => cli::CLI_U,
        _ => 0,
    }
}

/// `n` distinct indices below `u`, chosen by `seed` (all of them when n >= u).
pub fn select(gen: &'static str, u: u64, n: u64, seed: u64, out: &mut Vec<CaseRef>) {
    if n >= u {
        for i in 0..u {
            out.push(CaseRef { gen, idx: i });
        }
        return;
    }
    let mut seen = HashSet::new();
    let mut r = Rng::new(mix(seed, hash_str(gen)));
    while (seen.len() as u64) < n {
        let i = r.next() % u;
        if seen.insert(i) {
            out.push(CaseRef { gen, idx: i });
        }
    }
}

pub fn fail_json_pub(prop: &str, gen: &str, idx: u64, src: &str, cfg: Cfg, kind: &str, msg: &str, out: &str) -> String {
    format!(
        "{{\"property\":{},\"gen\":{},\"idx\":{},\"hash\":{},\"kind\":{},\"msg\":{},\"cfg\":{{\"tab\":{},\"width\":{},\"blank\":{},\"reorder\":{}}},\"src\":{},\"out\":{}}}",
        jstr(prop),
        jstr(gen),
        idx,
        case_hash(src, cfg),
        jstr(kind),
        jstr(msg),
        cfg.tab,
        cfg.width,
        cfg.blank,
        cfg.reorder,
        jstr(src),
        jstr(out)
    )
}

/// The property oracle on one (source, configuration).  Returns failure descriptions.
pub fn oracle(prop: &str, src: &str, source: &Source, cfg: Cfg, out: &str, count: u64) -> Vec<(String, String)> {
    let mut f = vec![];
    let mut push = |k: &str, m: Option<String>| {
        if let Some(m) = m {
            f.push((k.to_string(), m));
        }
    };
    match prop {
        "C01" | "C02" => push("tree", obs::check_c01(source, out, cfg)),
        "C03" => match obs::format(out, cfg) {
            Ok(o2) => {
                if o2 != out {
                    push("idempotence", Some(format!("second pass differs: {:?}", first_line_diff(out, &o2))))
                }
            }
            Err(e) => push("idempotence", Some(format!("second pass {}", e))),
        },
        "C04" => {
            if obs::parse(out).root().erroneous() {
                push("reparse", Some("output has syntax errors".into()))
            }
        }
        "C06" => push("comments", obs::check_c06(src, out)),
        "C07" => push("off", obs::check_c07(src, out)),
        "C08" => push("markup", obs::check_c08(src, out)),
        "C09" => push("math", obs::check_c09(src, out)),
        "C10" => push("literals", obs::check_c10(src, out, cfg)),
        "C11" => push("hygiene", obs::check_c11(out)),
        "C12" => {
            // non-wrapping width: unit 1 against units 2..8
            let big = Cfg { width: 1_000_000, tab: 1, ..cfg };
            if let Ok(o1) = obs::format(src, big) {
                for u in 2..=8usize {
                    match obs::format(src, Cfg { tab: u, ..big }) {
                        Ok(ou) => {
                            if let Some(m) = obs::check_c12_pair(&o1, &ou, u) {
                                push("indent", Some(m));
                                break;
                            }
                        }
                        Err(e) => push("indent", Some(format!("unit {}: {}", u, e))),
                    }
                }
            }
        }
        "C18" => {
            let n = ser::tree_size(source.root()) as u64;
            if count > 2 * n {
                push("linear", Some(format!("{} conversions for {} nodes", count, n)))
            }
        }
        "C19" => {
            let off = obs::format(src, Cfg { reorder: false, ..cfg });
            let on = obs::format(src, Cfg { reorder: true, ..cfg });
            match (off, on) {
                (Ok(a), Ok(b)) => push("imports", obs::check_c19(src, &a, &b)),
                (a, b) => push("imports", Some(format!("format failed: {:?} / {:?}", a.err(), b.err()))),
            }
        }
        _ => {}
    }
    f
}

pub fn case_hash(src: &str, _cfg: Cfg) -> u64 {
    // the index fixes the configuration; the hash guards against a changed generator
    hash_str(src)
}

/// `VH_KNOWN` names known-indices.json: {"Cxx": [[gen, idx, hash], …], …} (written by scripts/revalidate.py).
pub fn load_known_indices_pub(prop: &str) -> HashSet<(String, u64, u64)> {
    load_known_indices(prop)
}
fn load_known_indices(prop: &str) -> HashSet<(String, u64, u64)> {
    let mut set = HashSet::new();
    let Ok(path) = std::env::var("VH_KNOWN") else { return set };
    let Ok(text) = std::fs::read_to_string(path) else { return set };
    // minimal parser for the fixed format: one line per property: "Cxx": [["gen",idx,hash],...]
    for line in text.lines() {
        let line = line.trim();
        if !line.starts_with(&format!("\"{}\"", prop)) {
            continue;
        }
        for part in line.split("[\"").skip(1) {
            let mut it = part.split(|c| c == '"' || c == ',' || c == ']').filter(|x| !x.is_empty());
            if let (Some(g), Some(i), Some(h)) = (it.next(), it.next(), it.next()) {
                if let (Ok(i), Ok(h)) = (i.trim().parse::<u64>(), h.trim().parse::<u64>()) {
                    set.insert((g.to_string(), i, h));
                }
            }
        }
    }
    set
}

fn first_line_diff(a: &str, b: &str) -> (String, String) {
    for (x, y) in a.lines().zip(b.lines()) {
        if x != y {
            return (x.to_string(), y.to_string());
        }
    }
    (format!("{} lines", a.lines().count()), format!("{} lines", b.lines().count()))
}

/// Is the case non-trivial for the property (exercises what the property is about)?
fn nontrivial(prop: &str, src: &str) -> bool {
    match prop {
        "C06" => src.contains("//") || src.contains("/*"),
        "C07" => src.contains("@typstyle off"),
        "C09" => src.contains('$'),
        "C19" => src.contains("import"),
        "C10" => src.contains('"') || src.contains('`') || src.chars().any(|c| c.is_ascii_digit()),
        _ => src.trim().len() > 8,
    }
}

fn widths_for(cfg: Cfg, tier: &str, src_len: usize) -> Vec<usize> {
    // the oracle is evaluated at the case's width plus a small sweep
    let mut w = vec![cfg.width];
    if tier == "thorough" {
        for x in [0usize, 1, src_len / 3, src_len / 2, src_len, 40, 80, 100000] {
            if !w.contains(&x) {
                w.push(x);
            }
        }
    } else {
        for x in [0usize, 100000] {
            if !w.contains(&x) {
                w.push(x);
            }
        }
    }
    w
}

fn run_printer(prop: &str, tier: &str, seed: u64, outdir: &str, only: Option<(&'static str, u64, u64)>) {
    let fx = Fixtures::load(FIXTURE_ROOT, true);
    let mut cases: Vec<CaseRef> = vec![];
    if let Some((g, a, b)) = only {
        for i in a..b.min(universe_size(g, &fx)) {
            cases.push(CaseRef { gen: g, idx: i });
        }
    } else {
        let thorough = tier == "thorough";
        let (nfix, nexh, ngram, nimp) = if thorough { (u64::MAX, u64::MAX, 300_000, 20_000) } else { (6_000, 8_000, 20_000, 2_000) };
        select("corp", universe_size("corp", &fx), u64::MAX, seed, &mut cases);
        select("nest", nest_universe(), if thorough { u64::MAX } else { 8_000 }, seed, &mut cases);
        select("tab", tab_universe(), if thorough { 200_000 } else { 5_000 }, seed, &mut cases);
        select("raw", raw_universe(), if thorough { u64::MAX } else { 5_000 }, seed, &mut cases);
        select("exh2", exh2_universe(), if thorough { u64::MAX } else { 40_000 }, seed, &mut cases);
        select("nl", NL_U, if thorough { 60_000 } else { 6_000 }, seed, &mut cases);
        select("mut", MUT_U, if thorough { 150_000 } else { 16_000 }, seed, &mut cases);
        select("fix", universe_size("fix", &fx), nfix, seed, &mut cases);
        select("exh", universe_size("exh", &fx), nexh, seed, &mut cases);
        select("gram", GRAM_U, ngram, seed, &mut cases);
        if prop == "C19" {
            select("imp", IMP_U, nimp * 10, seed, &mut cases);
        } else {
            select("imp", IMP_U, nimp, seed, &mut cases);
        }
    }
    // indices that failed on the unchanged tree at validation time (known-indices.json)
    let known: HashSet<(String, u64, u64)> = load_known_indices(prop);
    let nthreads = std::thread::available_parallelism().map(|n| n.get()).unwrap_or(8).min(16);
    let chunk = (cases.len() + nthreads - 1) / nthreads.max(1);
    std::fs::create_dir_all(outdir).unwrap();
    // watchdog: the case each worker is on, and since when.  A case that runs for 30 s or drives
    // the process beyond 12 GB is reported as the failing input (formatting did not return in
    // bounded time / space) and the run stops: the workers cannot be interrupted.
    let current: Vec<std::sync::Mutex<(Option<CaseRef>, std::time::Instant)>> =
        (0..nthreads + 1).map(|_| std::sync::Mutex::new((None, std::time::Instant::now()))).collect();
    let done = std::sync::atomic::AtomicBool::new(false);
    let results: Vec<(Stats, Vec<String>)> = std::thread::scope(|sc| {
        let mut hs = vec![];
        {
            let (current, done, fx) = (&current, &done, &fx);
            sc.spawn(move || {
                while !done.load(std::sync::atomic::Ordering::Relaxed) {
                    std::thread::sleep(std::time::Duration::from_millis(500));
                    let rss_gb = std::fs::read_to_string("/proc/self/statm")
                        .ok()
                        .and_then(|t| t.split_whitespace().nth(1).and_then(|x| x.parse::<u64>().ok()))
                        .map(|pages| pages * 4096 / (1 << 30))
                        .unwrap_or(0);
                    let mut oldest: Option<(CaseRef, u64)> = None;
                    for c in current.iter() {
                        let g = c.lock().unwrap();
                        if let Some(cr) = &g.0 {
                            let ms = g.1.elapsed().as_millis() as u64;
                            if oldest.as_ref().map_or(true, |o| ms > o.1) {
                                oldest = Some((CaseRef { gen: cr.gen, idx: cr.idx }, ms));
                            }
                        }
                    }
                    if let Some((cr, ms)) = oldest {
                        if ms > 30_000 || (rss_gb >= 12 && ms > 2_000) {
                            if let Some((src, cfg, _)) = make_case(&cr, fx) {
                                let why = if ms > 30_000 { format!("no result after {} s", ms / 1000) } else { format!("{} GB resident after {} s on this input", rss_gb, ms / 1000) };
                                let j = fail_json_pub(prop, cr.gen, cr.idx, &src, cfg, "hang", &why, "");
                                let _ = std::fs::write(format!("{}/oracle.jsonl", outdir), format!("{}\n", j));
                                let mut stw = Stats::default();
                                stw.evaluated = 1;
                                stw.failures = 1;
                                stw.distinct.insert(cr.idx);
                                stw.nontrivial.insert(cr.idx);
                                stw.samples.push(format!("{}:{} (run stopped by the watchdog)", cr.gen, cr.idx));
                                let _ = std::fs::write(format!("{}/stats.json", outdir), stw.to_json());
                                println!("HANG {} {}", cr.gen, cr.idx);
                                std::process::exit(3);
                            }
                        }
                    }
                }
            });
        }
        for (ti, part) in cases.chunks(chunk.max(1)).enumerate() {
            let fx = &fx;
            let known = &known;
            let current = &current;
            let h = std::thread::Builder::new().stack_size(256 << 20).spawn_scoped(sc, move || {
                let mut st = Stats::default();
                let mut fails = vec![];
                let f = std::fs::File::create(format!("{}/cases.{}.txt", outdir, ti)).unwrap();
                let mut w = std::io::BufWriter::new(f);
                for c in part {
                    *current[ti].lock().unwrap() = (Some(CaseRef { gen: c.gen, idx: c.idx }), std::time::Instant::now());
                    set_cur_case(c.gen, c.idx);
                    let Some((src, mut cfg, feat)) = make_case(c, fx) else { continue };
                    if matches!(prop, "C06" | "C07" | "C08" | "C09" | "C12") {
                        // import reordering legitimately moves words; it is covered by C01/C03/C10/C19
                        cfg.reorder = false;
                    }
                    let source = Source::detached(src.clone());
                    if source.root().erroneous() {
                        st.erroneous += 1;
                        continue;
                    }
                    st.evaluated += 1;
                    *st.by_gen.entry(c.gen.to_string()).or_default() += 1;
                    let h = hash_str(&src);
                    st.distinct.insert(h);
                    if nontrivial(prop, &src) {
                        st.nontrivial.insert(h);
                    }
                    for ft in feat.split(' ') {
                        if c.gen == "gram" && !ft.is_empty() {
                            *st.features.entry(ft.to_string()).or_default() += 1;
                        }
                    }
                    let bucket = match src.len() {
                        0..=50 => "<=50B",
                        51..=200 => "<=200B",
                        201..=1000 => "<=1kB",
                        1001..=10000 => "<=10kB",
                        _ => ">10kB",
                    };
                    *st.sizes.entry(bucket.to_string()).or_default() += 1;
                    if st.samples.len() < 2 && nontrivial(prop, &src) && src.len() < 300 {
                        st.samples.push(format!("{}:{} tab={} width={} :: {}", c.gen, c.idx, cfg.tab, cfg.width, src));
                    }
                    let mut xshape = shapes::excluded(source.root(), prop);
                    if xshape.is_none() && known.contains(&(c.gen.to_string(), c.idx, case_hash(&src, cfg))) {
                        xshape = Some("known-index");
                    }
                    if let Some(id) = xshape {
                        *st.features.entry(format!("excluded-shape:{}", id)).or_default() += 1;
                    }
                    // --- implementation run at the case's configuration
                    let ob = match observe(&source, cfg) {
                        Ok(o) => o,
                        Err(e) => {
                            // a panic or refusal on a well-formed input is a C05 matter; every printer
                            // property needs an output to talk about, so it is reported here too
                            st.failures += 1;
                            fails.push(fail_json_pub(prop, c.gen, c.idx, &src, cfg, "no-output", &e, ""));
                            continue;
                        }
                    };
                    // --- oracle at the case's width and a sweep
                    let mut failed = false;
                    for wd in widths_for(cfg, tier, src.len()) {
                        if xshape.is_some() {
                            break;
                        }
                        let cfgw = Cfg { width: wd, ..cfg };
                        let (out, count) = if wd == cfg.width {
                            (ob.out.clone(), ob.count)
                        } else {
                            if prop == "C12" || prop == "C19" {
                                continue;
                            }
                            match observe(&source, cfgw) {
                                Ok(o) => (o.out, o.count),
                                Err(e) => {
                                    st.failures += 1;
                                    fails.push(fail_json_pub(prop, c.gen, c.idx, &src, cfgw, "no-output", &e, ""));
                                    failed = true;
                                    break;
                                }
                            }
                        };
                        st.oracle_evals += 1;
                        let fs = oracle(prop, &src, &source, cfgw, &out, count);
                        if let Some((k, m)) = fs.into_iter().next() {
                            st.failures += 1;
                            fails.push(fail_json_pub(prop, c.gen, c.idx, &src, cfgw, &k, &m, &out));
                            failed = true;
                            break;
                        }
                    }
                    let _ = failed;
                    // --- case for the Lean driver
                    if src.len() <= 40000 && only.is_none() {
                        let mut t = String::new();
                        ser::ser_tree(source.root(), &mut t);
                        writeln!(w, "CASE {} {}", c.gen, c.idx).unwrap();
                        writeln!(w, "CFG {} {} {} {}", cfg.tab, cfg.width, cfg.blank, if cfg.reorder { 1 } else { 0 }).unwrap();
                        if let Some(id) = xshape {
                            writeln!(w, "XSHAPE {}", id).unwrap();
                        }
                        writeln!(w, "TREE {}", t).unwrap();
                        writeln!(w, "COUNT {}", ob.count).unwrap();
                        writeln!(w, "OUT {}", hexs(&ob.out)).unwrap();
                        if prop == "C12" {
                            // the implementation's own documents at unit 1 and at the case's unit
                            if let Ok(o1) = observe(&source, Cfg { tab: 1, ..cfg }) {
                                writeln!(w, "DOC1 {}", o1.doc).unwrap();
                            }
                        }
                        writeln!(w, "DOC {}", ob.doc).unwrap();
                    }
                }
                *current[ti].lock().unwrap() = (None, std::time::Instant::now());
                w.flush().unwrap();
                (st, fails)
            });
            hs.push(h.unwrap());
        }
        let r = hs.into_iter().map(|h| h.join().unwrap()).collect();
        done.store(true, std::sync::atomic::Ordering::Relaxed);
        r
    });
    let mut st = Stats::default();
    let mut of = std::fs::File::create(format!("{}/oracle.jsonl", outdir)).unwrap();
    for (s, fails) in results {
        st.merge(s);
        for f in fails {
            writeln!(of, "{}", f).unwrap();
        }
    }
    std::fs::write(format!("{}/stats.json", outdir), st.to_json()).unwrap();
    println!("{}", st.to_json());
}

fn parse_cfg(a: &[String]) -> Cfg {
    Cfg {
        tab: a.first().and_then(|x| x.parse().ok()).unwrap_or(2),
        width: a.get(1).and_then(|x| x.parse().ok()).unwrap_or(80),
        blank: a.get(2).and_then(|x| x.parse().ok()).unwrap_or(2),
        reorder: a.get(3).map(|x| x == "1" || x == "true").unwrap_or(false),
    }
}

// ---------------------------------------------------------------------------------------------
// process aborts (allocation failure, `abort()`): `catch_unwind` does not see them.  The case a
// worker is on is kept in a thread-local; `abort()` raises SIGABRT on the calling thread, so the
// handler knows the input.  It records "<gen> <idx>" in $VH_ABORT_FILE and ends the process with
// status 4; `vh abortcase` then turns the record into an oracle failure with the input.
// ---------------------------------------------------------------------------------------------
thread_local! {
    pub static CUR_CASE: std::cell::Cell<(&'static str, u64)> = const { std::cell::Cell::new(("", 0)) };
}
pub fn set_cur_case(gen: &'static str, idx: u64) {
    CUR_CASE.with(|c| c.set((gen, idx)));
}
extern "C" {
    fn signal(signum: i32, handler: usize) -> usize;
    fn _exit(code: i32) -> !;
}
extern "C" fn on_abort(_sig: i32) {
    let (gen, idx) = CUR_CASE.with(|c| c.get());
    if let Ok(path) = std::env::var("VH_ABORT_FILE") {
        let _ = std::fs::write(path, format!("{} {}\n", gen, idx));
    }
    unsafe { _exit(4) }
}

fn main() {
    let args: Vec<String> = std::env::args().collect();
    std::panic::set_hook(Box::new(|_| {}));
    if std::env::var("VH_ABORT_FILE").is_ok() {
        unsafe {
            signal(6, on_abort as usize);
        }
    }
    let cmd = args.get(1).map(|s| s.as_str()).unwrap_or("");
    match cmd {
        // vh printer <prop> <tier> <seed> <outdir>
        "printer" => {
            let seed: u64 = args[4].parse().unwrap_or(0);
            run_printer(&args[2], &args[3], seed, &args[5], None);
        }
        // vh validate <prop> <gen> <from> <to> <outdir>: the oracle over a whole index range
        "validate" => {
            let gen: &'static str = match args[3].as_str() {
                "fix" => "fix",
                "gram" => "gram",
                "exh" => "exh",
                "imp" => "imp",
                "nest" => "nest",
                "tab" => "tab",
                "raw" => "raw",
                "exh2" => "exh2",
                "nl" => "nl",
                "mut" => "mut",
                "corp" => "corp",
                _ => "mal",
            };
            run_printer(&args[2], "thorough", 0, &args[6], Some((gen, args[4].parse().unwrap(), args[5].parse().unwrap())));
        }
        // vh one <prop> <file> tab width blank reorder : oracle on one input; exit 1 when it fails
        "one" => {
            let src = std::fs::read_to_string(&args[3]).unwrap();
            let cfg = parse_cfg(&args[4..]);
            let source = Source::detached(src.clone());
            if source.root().erroneous() {
                println!("ERRONEOUS");
                std::process::exit(2);
            }
            match observe(&source, cfg) {
                Ok(o) => {
                    let fs = oracle(&args[2], &src, &source, cfg, &o.out, o.count);
                    if fs.is_empty() {
                        println!("PASS");
                    } else {
                        for (k, m) in fs {
                            println!("FAIL {} {}", k, m);
                        }
                        println!("--- output\n{}", o.out);
                        std::process::exit(1);
                    }
                }
                Err(e) => {
                    println!("FAIL no-output {}", e);
                    std::process::exit(1);
                }
            }
        }
        // vh emit <file> tab width blank reorder : protocol lines for one input
        "emit" => {
            let src = std::fs::read_to_string(&args[2]).unwrap();
            let cfg = parse_cfg(&args[3..]);
            let source = Source::detached(src.clone());
            if let Ok(o) = observe(&source, cfg) {
                let mut t = String::new();
                ser::ser_tree(source.root(), &mut t);
                println!("CASE file 0");
                println!("CFG {} {} {} {}", cfg.tab, cfg.width, cfg.blank, if cfg.reorder { 1 } else { 0 });
                println!("TREE {}", t);
                println!("COUNT {}", o.count);
                println!("OUT {}", hexs(&o.out));
                println!("DOC {}", o.doc);
            }
        }
        // vh obs <prop> : stdin lines "<hexA> <hexB>" -> "same" / "diff"
        "obs" => {
            let prop = args[2].clone();
            let stdin = std::io::stdin();
            let mut line = String::new();
            while stdin.read_line(&mut line).unwrap_or(0) > 0 {
                let mut it = line.split_whitespace();
                if let (Some(a), Some(b)) = (it.next(), it.next()) {
                    if let (Some(a), Some(b)) = (unhex(a), unhex(b)) {
                        let same = match prop.as_str() {
                            "C01" | "C02" => obs::obs_c01(&a, true) == obs::obs_c01(&b, true),
                            "C04" => obs::parse(&a).root().erroneous() == obs::parse(&b).root().erroneous(),
                            "C06" => obs::obs_c06(&a) == obs::obs_c06(&b),
                            "C07" => obs::obs_c07(&a) == obs::obs_c07(&b),
                            "C08" => obs::obs_c08(&a) == obs::obs_c08(&b),
                            "C09" => obs::obs_c09(&a) == obs::obs_c09(&b),
                            "C10" => obs::obs_c10(&a, true) == obs::obs_c10(&b, true),
                            "C11" => obs::obs_c11(&a) == obs::obs_c11(&b),
                            "C12" => obs::obs_c12(&a) == obs::obs_c12(&b),
                            "C19" => obs::obs_c19(&a) == obs::obs_c19(&b),
                            _ => a == b,
                        };
                        println!("{}", if same { "same" } else { "diff" });
                    } else {
                        println!("bad");
                    }
                }
                line.clear();
            }
        }
        // vh show <gen> <idx>: the source and configuration of a case
        // vh flat <family> <n>: the source of a flat-family case (C18)
        "flat" => {
            print!("{}", gens::flat_case(&args[2], args[3].parse().unwrap_or(1)));
        }
        "flat1" => {
            let h = std::thread::Builder::new().stack_size(1 << 30).spawn({
                let (f, n) = (args[2].clone(), args[3].parse().unwrap_or(1));
                move || other::flat1(&f, n)
            });
            if !h.unwrap().join().unwrap_or(false) {
                std::process::exit(1);
            }
        }
        "show" => {
            let fx = Fixtures::load(FIXTURE_ROOT, true);
            let gen: &'static str = match args[2].as_str() { "fix" => "fix", "gram" => "gram", "exh" => "exh", "imp" => "imp", "nest" => "nest", "tab" => "tab", "raw" => "raw", "exh2" => "exh2", "nl" => "nl", "mut" => "mut", "corp" => "corp", _ => "mal" };
            match make_case(&CaseRef { gen, idx: args[3].parse().unwrap_or(0) }, &fx) {
                Some((s, cfg, d)) => {
                    eprintln!("{:?} {}", cfg, d);
                    print!("{}", s);
                }
                None => eprintln!("no such case"),
            }
        }
        // vh abortcase <prop> <gen> <idx> <outdir>: the input on which the process aborted, as an oracle failure
        "abortcase" => {
            let fx = Fixtures::load(FIXTURE_ROOT, true);
            let gen: &'static str = match args[3].as_str() { "fix" => "fix", "gram" => "gram", "exh" => "exh", "imp" => "imp", "nest" => "nest", "tab" => "tab", "raw" => "raw", "exh2" => "exh2", "nl" => "nl", "mut" => "mut", "corp" => "corp", _ => "mal" };
            let idx: u64 = args[4].parse().unwrap_or(0);
            if let Some((src, cfg, _)) = make_case(&CaseRef { gen, idx }, &fx) {
                let j = fail_json_pub(&args[2], gen, idx, &src, cfg, "abort", "the process aborted while formatting this input (allocation failure or abort(); not a panic that could be caught)", "");
                let _ = std::fs::write(format!("{}/oracle.jsonl", &args[5]), format!("{}\n", j));
                let mut stw = Stats::default();
                stw.evaluated = 1;
                stw.failures = 1;
                stw.distinct.insert(idx);
                stw.nontrivial.insert(idx);
                stw.samples.push(format!("{}:{} (run ended by a process abort)", gen, idx));
                let _ = std::fs::write(format!("{}/stats.json", &args[5]), stw.to_json());
            }
        }
        "fmtlist" => other::fmtlist(&args[2]),
        // vh cli <tier> <seed> <outdir> <binary> <prop>
        "cli" => cli::run(&args[2], args[3].parse().unwrap_or(0), &args[4], &args[5], &args[6]),
        "cli1" => cli::replay(&args[2], &args[3]),
        "range1" => {
            let src = std::fs::read_to_string(&args[2]).unwrap();
            let source = Source::detached(src.clone());
            let (a, b): (usize, usize) = (args[3].parse().unwrap(), args[4].parse().unwrap());
            match other::check_range(&src, &source, Cfg::default(), a, b) {
                Ok(r) => println!("PASS {:?}", r),
                Err((k, m)) => {
                    println!("FAIL {} {}", k, m);
                    std::process::exit(1);
                }
            }
        }
        "total" | "range" | "det" | "perf" | "wsset" | "chainwidth" => other::run(cmd, &args[2..]),
        _ => {
            eprintln!("usage: vh printer|validate|one|emit|obs|total|range|det|perf ...");
            std::process::exit(2);
        }
    }
}
