//! Serialisation of syntax trees and `pretty::Doc`s for the Lean driver (Polish notation, hex text).
use crate::util::hex;
use pretty::{Doc, RefDoc};
use std::fmt::Write;
use typst_syntax::SyntaxNode;

fn txt(len: usize, s: &str, out: &mut String) {
    write!(out, "T {} ", len).unwrap();
    hex(s, out);
    out.push(' ');
}

/// Returns false if the document contains a constructor the model does not know.
pub fn ser_doc<'a>(d: &Doc<'a, RefDoc<'a, ()>, ()>, out: &mut String) -> bool {
    match d {
        Doc::Nil => out.push_str("N "),
        Doc::Append(a, b) => {
            out.push_str("A ");
            return ser_doc(a, out) && ser_doc(b, out);
        }
        Doc::Group(a) => {
            out.push_str("G ");
            return ser_doc(a, out);
        }
        Doc::FlatAlt(a, b) => {
            out.push_str("F ");
            return ser_doc(a, out) && ser_doc(b, out);
        }
        Doc::Nest(n, a) => {
            write!(out, "S {} ", n).unwrap();
            return ser_doc(a, out);
        }
        Doc::Hardline => out.push_str("H "),
        Doc::RenderLen(len, t) => {
            let s: &str = match &**t {
                Doc::OwnedText(s) => &s[..],
                Doc::BorrowedText(s) => s,
                Doc::SmallText(s) => s.as_str(),
                _ => return false,
            };
            txt(*len, s, out);
        }
        Doc::OwnedText(s) => txt(s.len(), s, out),
        Doc::BorrowedText(s) => txt(s.len(), s, out),
        Doc::SmallText(s) => txt(s.len(), s, out),
        // `align()` = column(|c| nesting(|n| nest(c - n))): recognised by probing the closures.
        Doc::Column(f) => {
            let d1 = f(1000);
            match &*d1 {
                Doc::Nesting(g) => {
                    let d2 = g(0);
                    match &*d2 {
                        Doc::Nest(1000, inner) => {
                            out.push_str("L ");
                            return ser_doc(inner, out);
                        }
                        Doc::Nil => out.push_str("N "),
                        _ => return false,
                    }
                }
                _ => return false,
            }
        }
        _ => return false,
    }
    true
}

pub fn ser_tree(n: &SyntaxNode, out: &mut String) {
    if n.children().len() == 0 {
        write!(out, "L {:?} ", n.kind()).unwrap();
        hex(n.text(), out);
        out.push(' ');
    } else {
        write!(out, "I {:?} {} ", n.kind(), n.children().len()).unwrap();
        for c in n.children() {
            ser_tree(c, out);
        }
    }
}

pub fn tree_size(n: &SyntaxNode) -> usize {
    1 + n.children().map(tree_size).sum::<usize>()
}
pub fn tree_depth(n: &SyntaxNode) -> usize {
    1 + n.children().map(tree_depth).max().unwrap_or(0)
}
