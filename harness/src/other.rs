//! Non-printer runs: totality (C05), range formatting (C13), determinism (C17), cost (C18),
//! and the small exhaustive ties (White_Space set, chain_width).
use crate::gens::*;
use crate::obs;
use crate::ser;
use crate::util::*;
use crate::{fail_json_pub as fail_json, Stats, FIXTURE_ROOT};
use std::collections::HashSet;
use std::io::Write as _;
use std::time::Instant;
use typst_syntax::{LinkedNode, Source};
use typstyle_core::Typstyle;

pub fn run(cmd: &str, a: &[String]) {
    match cmd {
        "total" => total(&a[0], a[1].parse().unwrap_or(0), &a[2]),
        "range" => range(&a[0], a[1].parse().unwrap_or(0), &a[2]),
        "det" => det(&a[0], a[1].parse().unwrap_or(0), &a[2]),
        "perf" => perf(&a[0], &a[1]),
        "wsset" => {
            std::fs::create_dir_all(&a[0]).unwrap();
            let mut f = std::io::BufWriter::new(std::fs::File::create(format!("{}/cases.0.txt", a[0])).unwrap());
            wsset(&mut f);
            std::fs::write(format!("{}/stats.json", a[0]), "{\"evaluated\":6000,\"failures\":0,\"samples\":[\"White_Space set, newline set, strip on 6000 strings over blanks and newlines\"]}").unwrap();
            std::fs::write(format!("{}/oracle.jsonl", a[0]), "").unwrap();
        }
        "chainwidth" => {
            std::fs::create_dir_all(&a[0]).unwrap();
            let mut f = std::io::BufWriter::new(std::fs::File::create(format!("{}/cases.0.txt", a[0])).unwrap());
            chainwidth(&mut f);
            std::fs::write(format!("{}/stats.json", a[0]), "{\"evaluated\":10100,\"failures\":0,\"samples\":[\"Config::chain_width for all w < 4096 and sampled w up to usize::MAX/2\"]}").unwrap();
            std::fs::write(format!("{}/oracle.jsonl", a[0]), "").unwrap();
        }
        _ => {}
    }
}

fn nthreads() -> usize {
    std::thread::available_parallelism().map(|n| n.get()).unwrap_or(8).min(16)
}

// ---------------------------------------------------------------------------------------------
// C05
// ---------------------------------------------------------------------------------------------
fn total(tier: &str, seed: u64, outdir: &str) {
    let fx = Fixtures::load(FIXTURE_ROOT, false);
    let n: u64 = if tier == "thorough" { 300_000 } else { 30_000 };
    let mut idxs = vec![];
    crate::select("mal", MAL_U, n, seed, &mut idxs);
    std::fs::create_dir_all(outdir).unwrap();
    let nt = nthreads();
    let chunk = (idxs.len() + nt - 1) / nt;
    // watchdog: the case each worker is on, and since when
    let current: Vec<std::sync::Mutex<(u64, Instant)>> = (0..nt + 1).map(|_| std::sync::Mutex::new((u64::MAX, Instant::now()))).collect();
    let done = std::sync::atomic::AtomicBool::new(false);
    let results: Vec<(Stats, Vec<String>)> = std::thread::scope(|sc| {
        let current = &current;
        let done = &done;
        let outdir2 = outdir.to_string();
        sc.spawn(move || {
            while !done.load(std::sync::atomic::Ordering::Relaxed) {
                std::thread::sleep(std::time::Duration::from_millis(500));
                // resident memory of this process (pages): a blow-up is reported before the
                // kernel kills the run
                let rss_gb = std::fs::read_to_string("/proc/self/statm")
                    .ok()
                    .and_then(|t| t.split_whitespace().nth(1).and_then(|x| x.parse::<u64>().ok()))
                    .map(|pages| pages * 4096 / (1 << 30))
                    .unwrap_or(0);
                // the case that has been running longest
                let mut oldest: Option<(u64, u64)> = None;
                for c in current.iter() {
                    let g = c.lock().unwrap();
                    if g.0 != u64::MAX {
                        let ms = g.1.elapsed().as_millis() as u64;
                        if oldest.map_or(true, |o| ms > o.1) {
                            oldest = Some((g.0, ms));
                        }
                    }
                }
                if let Some((idx, ms)) = oldest {
                    let hang = ms > 20_000;
                    let blowup = rss_gb >= 12 && ms > 2_000;
                    if hang || blowup {
                        let fxw = Fixtures::load(FIXTURE_ROOT, false);
                        let (src, cfg) = mal_case(idx, &fxw);
                        let why = if hang { format!("no result after {} s", ms / 1000) } else { format!("{} GB resident after {} s on this input", rss_gb, ms / 1000) };
                        let j = fail_json("C05", "mal", idx, &src, cfg, "hang", &why, "");
                        let _ = std::fs::write(format!("{}/oracle.jsonl", outdir2), format!("{}\n", j));
                                                let mut stw = Stats::default();
                        stw.evaluated = 1;
                        stw.failures = 1;
                        stw.distinct.insert(idx);
                        stw.nontrivial.insert(idx);
                        stw.samples.push(format!("mal:{} (run stopped by the watchdog)", idx));
                        let _ = std::fs::write(format!("{}/stats.json", outdir2), stw.to_json());
                        println!("HANG mal {}", idx);
                        std::process::exit(3);
                    }
                }
            }
        });
        let mut hs = vec![];
        for (ti, part) in idxs.chunks(chunk.max(1)).enumerate() {
            let fx = &fx;
            let h = std::thread::Builder::new().stack_size(64 << 20).spawn_scoped(sc, move || {
                let mut st = Stats::default();
                let mut fails = vec![];
                let f = std::fs::File::create(format!("{}/cases.{}.txt", outdir, ti)).unwrap();
                let mut w = std::io::BufWriter::new(f);
                for c in part {
                    let (src, cfg) = mal_case(c.idx, fx);
                    *current[ti].lock().unwrap() = (c.idx, Instant::now());
                    crate::set_cur_case("mal", c.idx);
                    st.evaluated += 1;
                    let h = crate::hash_str_pub(&src);
                    st.distinct.insert(h);
                    let source = Source::detached(src.clone());
                    let erroneous = source.root().erroneous();
                    if erroneous {
                        st.erroneous += 1;
                    }
                    if src.trim().len() > 2 {
                        st.nontrivial.insert(h);
                    }
                    *st.by_gen.entry(if erroneous { "erroneous".into() } else { "well-formed".into() }).or_default() += 1;
                    if st.samples.len() < 2 && src.len() < 120 && src.len() > 5 {
                        st.samples.push(format!("mal:{} tab={} width={} erroneous={} :: {}", c.idx, cfg.tab, cfg.width, erroneous, src));
                    }
                    let s2 = src.clone();
                    let r = std::panic::catch_unwind(move || Typstyle::new(cfg.to_config()).format_content(s2));
                    let mut bad: Option<(&str, String)> = None;
                    match &r {
                        Err(_) => bad = Some(("panic", "format_content panicked".into())),
                        Ok(Ok(_)) if erroneous => bad = Some(("refusal", "erroneous input was formatted".into())),
                        Ok(Err(_)) if !erroneous => bad = Some(("refusal", "well-formed input was refused".into())),
                        _ => {}
                    }
                    if bad.is_none() {
                        // the width-only convenience entry point
                        let wsmall = cfg.width.min(500);
                        let s3 = src.clone();
                        match std::panic::catch_unwind(move || typstyle_core::format_with_width(&s3, wsmall)) {
                            Err(_) => bad = Some(("panic", "format_with_width panicked".into())),
                            Ok(o) => {
                                if erroneous && o != src {
                                    bad = Some(("refusal", "format_with_width changed an erroneous input".into()));
                                }
                                if !erroneous {
                                    let exp = obs::format(&src, Cfg { tab: 2, width: wsmall, blank: 2, reorder: false });
                                    if exp.as_ref().ok() != Some(&o) {
                                        bad = Some(("frontend", "format_with_width differs from the library".into()));
                                    }
                                }
                            }
                        }
                    }
                    if let Some((k, m)) = bad {
                        st.failures += 1;
                        fails.push(fail_json("C05", "mal", c.idx, &src, cfg, k, &m, ""));
                    }
                    // model side: the tree (when accepted) must be printed without rejection
                    if !erroneous && src.len() < 20000 && cfg.width <= 1_000_000 {
                        if let Ok(ob) = crate::observe(&source, cfg) {
                            if ob.out.len() + ob.doc.len() > (4 << 20) {
                                // deep nesting at a huge indent unit: megabytes of indentation
                                *st.by_gen.entry("model-skipped-large-output".into()).or_default() += 1;
                                continue;
                            }
                            let mut t = String::new();
                            ser::ser_tree(source.root(), &mut t);
                            writeln!(w, "CASE mal {}", c.idx).unwrap();
                            writeln!(w, "CFG {} {} {} {}", cfg.tab, cfg.width, cfg.blank, if cfg.reorder { 1 } else { 0 }).unwrap();
                            writeln!(w, "TREE {}", t).unwrap();
                            writeln!(w, "COUNT {}", ob.count).unwrap();
                            writeln!(w, "OUT {}", hexs(&ob.out)).unwrap();
                            writeln!(w, "DOC {}", ob.doc).unwrap();
                        }
                    }
                }
                *current[ti].lock().unwrap() = (u64::MAX, Instant::now());
                w.flush().unwrap();
                (st, fails)
            });
            hs.push(h.unwrap());
        }
        let r = hs.into_iter().map(|h| h.join().unwrap()).collect();
        done.store(true, std::sync::atomic::Ordering::Relaxed);
        r
    });
    finish(outdir, results);
}

fn finish(outdir: &str, results: Vec<(Stats, Vec<String>)>) {
    let mut st = Stats::default();
    let mut of = std::fs::File::create(format!("{}/oracle.jsonl", outdir)).unwrap();
    for (s, fails) in results {
        st.merge_pub(s);
        for f in fails {
            writeln!(of, "{}", f).unwrap();
        }
    }
    std::fs::write(format!("{}/stats.json", outdir), st.to_json()).unwrap();
    println!("{}", st.to_json());
}

// ---------------------------------------------------------------------------------------------
// C13
// ---------------------------------------------------------------------------------------------
fn node_with_range(n: &LinkedNode, r: &std::ops::Range<usize>) -> Option<bool> {
    // Some(erroneous) if some node has exactly this range
    if n.range() == *r {
        return Some(n.erroneous());
    }
    for c in n.children() {
        if c.range().start <= r.start && c.range().end >= r.end {
            if let Some(x) = node_with_range(&c, r) {
                return Some(x);
            }
        }
    }
    None
}

fn kinds_to_range(n: &LinkedNode, r: &std::ops::Range<usize>, path: &mut Vec<typst_syntax::SyntaxKind>) -> bool {
    path.push(n.kind());
    if n.range() == *r {
        // the deepest node with this range is what `find(span)` resolves to only if spans agree; any is fine here
        for c in n.children() {
            if c.range() == *r && kinds_to_range(&c, r, path) {
                return true;
            }
        }
        return true;
    }
    for c in n.children() {
        if c.range().start <= r.start && c.range().end >= r.end && kinds_to_range(&c, r, path) {
            return true;
        }
    }
    path.pop();
    false
}

pub fn check_range(src: &str, source: &Source, cfg: Cfg, s: usize, e: usize) -> Result<Option<(std::ops::Range<usize>, String)>, (String, String)> {
    let t = Typstyle::new(cfg.to_config());
    let r = std::panic::catch_unwind(std::panic::AssertUnwindSafe(|| t.format_source_range(source, s..e)));
    let erroneous = source.root().erroneous();
    match r {
        Err(_) => Err(("panic".into(), format!("format_source_range({}..{}) panicked", s, e))),
        Ok(Err(_)) => {
            if !erroneous {
                Err(("refusal".into(), format!("range {}..{} of a well-formed source was refused", s, e)))
            } else {
                Ok(None)
            }
        }
        Ok(Ok((rng, text))) => {
            let len = src.len();
            if rng.start > rng.end || rng.end > len || !src.is_char_boundary(rng.start) || !src.is_char_boundary(rng.end) {
                return Err(("range".into(), format!("returned range {:?} is not a valid range of the text", rng)));
            }
            let root = LinkedNode::new(source.root());
            match node_with_range(&root, &rng) {
                None => return Err(("range".into(), format!("returned range {:?} is not a node boundary", rng))),
                Some(true) => return Err(("refusal".into(), format!("text returned for an erroneous node {:?}", rng))),
                Some(false) => {}
            }
            // covers the trimmed request
            let (cs, ce) = (s.min(len), e.min(len));
            let req = &src[cs..ce];
            let te = cs + req.trim_end().len();
            let ts = te - src[cs..te].trim_start().len();
            if !(rng.start <= ts && rng.end >= te) {
                return Err(("cover".into(), format!("returned range {:?} does not cover the trimmed request {}..{}", rng, ts, te)));
            }
            // known findings F13/F14/F25: Markup nodes (trimmed edges, unstripped blank lines) and anything
            // inside list/enum/term items are formatted without their context; printer findings by shape
            let mut path = vec![];
            kinds_to_range(&root, &rng, &mut path);
            let in_item = path.iter().any(|k| matches!(k, typst_syntax::SyntaxKind::ListItem | typst_syntax::SyntaxKind::EnumItem | typst_syntax::SyntaxKind::TermItem));
            let inner_markup = path.last() == Some(&typst_syntax::SyntaxKind::Markup);
            let shape = crate::shapes::excluded(source.root(), "C13").is_some();
            let no_excl = std::env::var("VH_NO_EXCLUDE").is_ok();
            if !erroneous && (no_excl || (!in_item && !inner_markup && !shape)) {
                let spliced = format!("{}{}{}", &src[..rng.start], text, &src[rng.end..]);
                let s2 = obs::parse(&spliced);
                if s2.root().erroneous() {
                    return Err(("splice".into(), format!("splicing range {:?} yields syntax errors", rng)));
                }
                let c0 = obs::canon(source.root(), None, cfg.reorder);
                let c1 = obs::canon(s2.root(), None, cfg.reorder);
                if c0 != c1 {
                    let d = match (&c0, &c1) {
                        (Some(a), Some(b)) => obs::first_diff(a, b, &mut vec![]).unwrap_or_default(),
                        _ => String::new(),
                    };
                    return Err(("splice".into(), format!("splicing range {:?} changes the tree: {}", rng, d)));
                }
            }
            Ok(Some((rng, text)))
        }
    }
}

pub const RANGE_U: u64 = 1_000_000;
/// (source, cfg, start, end) of a range case
pub fn range_case(idx: u64, fx: &Fixtures) -> (String, Cfg, usize, usize) {
    let mut r = Rng::new(mix(0x7A46E, idx));
    let (src, mut cfg) = match r.below(12) {
        10 | 11 => {
            // nested contexts: content in code, code in content, equations in both
            let mut g = G::new(mix(0x5EED, idx));
            let inner = g.expr(3);
            let chain = format!("data.items.filter(it => it.{} > {}).map(it => it.price * it.count).sum()", g.ident(), g.lit());
            let body = g.r.pick(&[
                "#let f(d) = {\n  [\n    Total: #CHAIN more\n  ]\n}\n",
                "#{\n  let x = [a #CHAIN b]\n  x\n}\n",
                "$ #f([#CHAIN]) + x $\n",
                "#f(a, [\n  #let y = EXPR\n  #CHAIN\n])\n",
                "#let g = (a) => {\n  $ x + #(EXPR) $\n  [#EXPR]\n}\n",
                "- item #{ let q = [#CHAIN]; q }\n  more\n",
            ]);
            (body.replace("CHAIN", &chain).replace("EXPR", &inner), rand_cfg(&mut g.r))
        }
        0 | 1 => {
            let (_, s) = &fx.items[r.below(fx.items.len())];
            let s: String = if s.len() > 1500 { s.chars().take(1500).collect() } else { s.clone() };
            (s, rand_cfg(&mut r))
        }
        2 => {
            let (s, c) = mal_case(r.next() % MAL_U, fx);
            (s, c)
        }
        _ => {
            let (s, c, _) = gram_case(r.next() % GRAM_U);
            (s, c)
        }
    };
    cfg.tab = cfg.tab.max(1);
    cfg.width = match r.below(4) {
        0 => cfg.width.min(200),
        1 => r.below(30),
        _ => 20 + r.below(60),
    };
    let bounds: Vec<usize> = (0..=src.len()).filter(|i| src.is_char_boundary(*i)).collect();
    if r.below(2) == 0 {
        // a range aligned to a node of the tree (possibly shrunk or grown by a character)
        let source = Source::detached(src.clone());
        let mut ranges = vec![];
        fn collect(n: &LinkedNode, depth: usize, out: &mut Vec<(usize, usize, usize)>) {
            if n.get().children().len() > 0 && n.range().len() > 0 {
                out.push((n.range().start, n.range().end, depth));
            }
            for c in n.children() {
                collect(&c, depth + 1, out);
            }
        }
        collect(&LinkedNode::new(source.root()), 0, &mut ranges);
        if !ranges.is_empty() {
            // prefer deep nodes
            let maxd = ranges.iter().map(|x| x.2).max().unwrap_or(0);
            let want = r.below(maxd + 1);
            let cands: Vec<&(usize, usize, usize)> = ranges.iter().filter(|x| x.2 >= want).collect();
            let (mut a, mut b, _) = *cands[r.below(cands.len())];
            match r.below(5) {
                0 if b > a + 1 && src.is_char_boundary(a + 1) => a += 1,
                1 if b > a + 1 && src.is_char_boundary(b - 1) => b -= 1,
                2 if a > 0 && src.is_char_boundary(a - 1) => a -= 1,
                _ => {}
            }
            return (src, cfg, a, b);
        }
    }
    let a = bounds[r.below(bounds.len())];
    let b = match r.below(8) {
        0 => a,
        1 => src.len() + 1 + r.below(10),
        2 => src.len(),
        _ => bounds[r.below(bounds.len())],
    };
    let (a, b) = if a <= b { (a, b) } else { (b, a) };
    (src, cfg, a, b)
}

fn range(tier: &str, seed: u64, outdir: &str) {
    let fx = Fixtures::load(&format!("{}/unit", FIXTURE_ROOT), true);
    let n: u64 = if tier == "validate" { u64::MAX } else if tier == "thorough" { 300_000 } else { 25_000 };
    let mut idxs = vec![];
    crate::select("range", RANGE_U, n, seed, &mut idxs);
    let known = crate::load_known_indices_pub("C13");
    let validate = tier == "validate";
    std::fs::create_dir_all(outdir).unwrap();
    let nt = nthreads();
    let chunk = (idxs.len() + nt - 1) / nt;
    let results: Vec<(Stats, Vec<String>)> = std::thread::scope(|sc| {
        let mut hs = vec![];
        for (ti, part) in idxs.chunks(chunk.max(1)).enumerate() {
            let fx = &fx;
            let known = &known;
            let h = std::thread::Builder::new().stack_size(64 << 20).spawn_scoped(sc, move || {
                let mut st = Stats::default();
                let mut fails = vec![];
                let f = std::fs::File::create(format!("{}/cases.{}.txt", outdir, ti)).unwrap();
                let mut w = std::io::BufWriter::new(f);
                for c in part {
                    let (src, cfg, a, b) = range_case(c.idx, fx);
                    if known.contains(&("range".to_string(), c.idx, crate::case_hash(&src, cfg))) {
                        *st.features.entry("excluded-shape:known-index".into()).or_default() += 1;
                        continue;
                    }
                    let source = Source::detached(src.clone());
                    st.evaluated += 1;
                    let erroneous = source.root().erroneous();
                    if erroneous {
                        st.erroneous += 1;
                    }
                    let h = crate::hash_str_pub(&format!("{}:{}:{}", src, a, b));
                    st.distinct.insert(h);
                    if b > a && !src[a.min(src.len())..b.min(src.len())].trim().is_empty() {
                        st.nontrivial.insert(h);
                    }
                    let kind = if b > src.len() {
                        "end-past-text"
                    } else if a == b {
                        "empty"
                    } else if src[a..b].trim().is_empty() {
                        "blank-only"
                    } else if a == 0 && b == src.len() {
                        "whole"
                    } else {
                        "inner"
                    };
                    *st.by_gen.entry(kind.to_string()).or_default() += 1;
                    if st.samples.len() < 2 && src.len() < 100 && kind == "inner" {
                        st.samples.push(format!("range:{} {}..{} of {:?}", c.idx, a, b, src));
                    }
                    match check_range(&src, &source, cfg, a, b) {
                        Err((k, m)) => {
                            st.failures += 1;
                            let mut j = fail_json("C13", "range", c.idx, &src, cfg, &k, &m, "");
                            j.pop();
                            j += &format!(",\"start\":{},\"end\":{}}}", a, b);
                            fails.push(j);
                        }
                        Ok(res) => {
                            if src.len() < 20000 && !validate {
                                let mut t = String::new();
                                ser::ser_tree(source.root(), &mut t);
                                writeln!(w, "CASE range {}", c.idx).unwrap();
                                writeln!(w, "CFG {} {} {} {}", cfg.tab, cfg.width, cfg.blank, if cfg.reorder { 1 } else { 0 }).unwrap();
                                writeln!(w, "SRC {}", hexs(&src)).unwrap();
                                writeln!(w, "ETREE {}", etree(source.root())).unwrap();
                                let _ = t;
                                match res {
                                    Some((rng, text)) => writeln!(w, "RANGE {} {} {} {} {}", a, b, rng.start, rng.end, hexs(&text)).unwrap(),
                                    None => writeln!(w, "RANGE {} {} refused", a, b).unwrap(),
                                }
                            }
                        }
                    }
                }
                w.flush().unwrap();
                (st, fails)
            });
            hs.push(h.unwrap());
        }
        hs.into_iter().map(|h| h.join().unwrap()).collect()
    });
    finish(outdir, results);
}

/// Tree with error flags, for the range model: `L kind hex` / `I kind n …` / `E kind n …` (erroneous inner)
/// / `X hex` (error leaf).
pub fn etree(n: &typst_syntax::SyntaxNode) -> String {
    let mut out = String::new();
    fn go(n: &typst_syntax::SyntaxNode, out: &mut String) {
        use std::fmt::Write;
        if n.kind() == typst_syntax::SyntaxKind::Error {
            out.push_str("X ");
            hex(&n.clone().into_text(), out);
            out.push(' ');
        } else if n.children().len() == 0 {
            write!(out, "L {:?} ", n.kind()).unwrap();
            hex(n.text(), out);
            out.push(' ');
        } else {
            write!(out, "{} {:?} {} ", if n.erroneous() { "E" } else { "I" }, n.kind(), n.children().len()).unwrap();
            for c in n.children() {
                go(c, out);
            }
        }
    }
    go(n, &mut out);
    out
}

// ---------------------------------------------------------------------------------------------
// C17
// ---------------------------------------------------------------------------------------------
fn det(tier: &str, seed: u64, outdir: &str) {
    let fx = Fixtures::load(FIXTURE_ROOT, false);
    std::fs::create_dir_all(outdir).unwrap();
    let ndocs = if tier == "thorough" { 600 } else { 150 };
    let rounds = if tier == "thorough" { 12 } else { 4 };
    let mut refs = vec![];
    crate::select("gram", GRAM_U, ndocs / 2, seed, &mut refs);
    crate::select("fix", crate::universe_size("fix", &fx), ndocs / 4, seed, &mut refs);
    // import statements are small and the only place where a sort decides the output: take many, so
    // that lists with equal or nearly equal keys (`b`, `B`) occur
    crate::select("imp", IMP_U, ndocs * 6, seed, &mut refs);
    let mut docs: Vec<(String, Cfg)> = refs
        .iter()
        .filter_map(|c| crate::make_case(c, &fx))
        .map(|(s, c, _)| (s, c))
        .filter(|(s, _)| !obs::parse(s).root().erroneous())
        .collect();
    // the same text under configurations that differ in exactly one field (a call must not
    // observe anything a call with another configuration left behind)
    let mut rv = Rng::new(mix(seed, 0x7A21));
    let n0 = docs.len();
    let orig: Vec<(String, Cfg)> = std::mem::take(&mut docs);
    for (s, c) in orig.into_iter().take(n0) {
        docs.push((s.clone(), c));
        // every field of the configuration is toggled for the texts it can matter for
        if s.contains("import") {
            docs.push((s.clone(), Cfg { reorder: !c.reorder, ..c }));
            docs.push((s.clone(), c));
        }
        if rv.below(2) == 0 {
            let v = match rv.below(3) {
                0 => Cfg { tab: if c.tab == 2 { 4 } else { 2 }, ..c },
                1 => Cfg { width: if c.width >= 40 { c.width / 2 } else { c.width + 40 }, ..c },
                _ => Cfg { blank: (c.blank + 1) % 4, ..c },
            };
            docs.push((s, v));
        }
    }
    // reference results: every document on a fresh thread (no earlier call on that thread)
    let base: Vec<Result<String, String>> = docs
        .iter()
        .map(|(s, c)| {
            let (s, c) = (s.clone(), *c);
            std::thread::Builder::new().stack_size(64 << 20).spawn(move || obs::format(&s, c)).unwrap().join().unwrap_or(Err("panic".into()))
        })
        .collect();
    let mut st = Stats::default();
    let mut fails = vec![];
    for (s, _) in &docs {
        let h = crate::hash_str_pub(s);
        st.distinct.insert(h);
        if s.len() > 10 {
            st.nontrivial.insert(h);
        }
    }
    let mut schedules = 0u64;
    if let Some((s, c)) = docs.first() {
        st.samples.push(format!("tab={} width={} :: {}", c.tab, c.width, s.chars().take(200).collect::<String>()));
    }
    let mut schedules = 0u64;
    // (0) sequential, in list order (a text is directly followed by its configuration variant), twice
    for _ in 0..2 {
        for i in 0..docs.len() {
            st.evaluated += 1;
            if obs::format(&docs[i].0, docs[i].1) != base[i] {
                st.failures += 1;
                fails.push(fail_json("C17", "det", i as u64, &docs[i].0, docs[i].1, "sequential", "result differs from the result of the same call on a fresh thread (after a call with the same text and another configuration)", ""));
            }
        }
        schedules += 1;
    }
    // (1) repeated sequential calls in shuffled orders
    let mut r = Rng::new(mix(seed, 0xDE7));
    for _ in 0..rounds {
        let mut order: Vec<usize> = (0..docs.len()).collect();
        for i in (1..order.len()).rev() {
            order.swap(i, r.below(i + 1));
        }
        for &i in &order {
            st.evaluated += 1;
            let o = obs::format(&docs[i].0, docs[i].1);
            if o != base[i] {
                st.failures += 1;
                fails.push(fail_json("C17", "det", i as u64, &docs[i].0, docs[i].1, "sequential", "result differs from the first call when called in another order", ""));
            }
        }
        schedules += 1;
    }
    // (2) concurrent: T threads, each formats the documents in its own shuffled order
    for round in 0..rounds {
        let nt = [2usize, 4, 8, 16][round % 4];
        let res: Vec<Vec<(usize, bool)>> = std::thread::scope(|sc| {
            let docs = &docs;
            let base = &base;
            let hs: Vec<_> = (0..nt)
                .map(|t| {
                    std::thread::Builder::new()
                        .stack_size(64 << 20)
                        .spawn_scoped(sc, move || {
                            let mut r = Rng::new(mix(seed, (round * 100 + t) as u64));
                            let mut order: Vec<usize> = (0..docs.len()).collect();
                            for i in (1..order.len()).rev() {
                                order.swap(i, r.below(i + 1));
                            }
                            order.iter().map(|&i| (i, obs::format(&docs[i].0, docs[i].1) == base[i])).collect::<Vec<_>>()
                        })
                        .unwrap()
                })
                .collect();
            hs.into_iter().map(|h| h.join().unwrap()).collect()
        });
        for v in res {
            for (i, ok) in v {
                st.evaluated += 1;
                if !ok {
                    st.failures += 1;
                    fails.push(fail_json("C17", "det", i as u64, &docs[i].0, docs[i].1, "concurrent", &format!("result differs under {} concurrent threads", nt), ""));
                }
            }
        }
        schedules += 1;
    }
    // (3) fresh processes
    let exe = std::env::current_exe().unwrap();
    let nproc = if tier == "thorough" { 8 } else { 3 };
    for p in 0..nproc {
        let list = format!("{}/det.{}.txt", outdir, p);
        let mut f = std::fs::File::create(&list).unwrap();
        let pick: Vec<usize> = (0..docs.len()).filter(|i| (i + p) % nproc == 0).collect();
        for &i in &pick {
            let c = docs[i].1;
            writeln!(f, "{} {} {} {} {}", c.tab, c.width, c.blank, if c.reorder { 1 } else { 0 }, hexs(&docs[i].0)).unwrap();
        }
        drop(f);
        let o = std::process::Command::new(&exe).arg("fmtlist").arg(&list).output();
        if let Ok(o) = o {
            let text = String::from_utf8_lossy(&o.stdout).to_string();
            let lines: Vec<&str> = text.lines().collect();
            for (k, &i) in pick.iter().enumerate() {
                st.evaluated += 1;
                let exp = match &base[i] {
                    Ok(s) => hexs(s),
                    Err(e) => format!("!{}", e),
                };
                if lines.get(k).copied() != Some(exp.as_str()) {
                    st.failures += 1;
                    fails.push(fail_json("C17", "det", i as u64, &docs[i].0, docs[i].1, "process", "result differs in a fresh process", ""));
                }
            }
        }
        schedules += 1;
    }
    st.by_gen.insert("schedules".into(), schedules);
    st.by_gen.insert("documents".into(), docs.len() as u64);
    // model side: the single-threaded results are what the model produces
    {
        let f = std::fs::File::create(format!("{}/cases.0.txt", outdir)).unwrap();
        let mut w = std::io::BufWriter::new(f);
        for (i, (s, c)) in docs.iter().enumerate() {
            if s.len() > 20000 {
                continue;
            }
            let source = Source::detached(s.clone());
            if let Ok(ob) = crate::observe(&source, *c) {
                let mut t = String::new();
                ser::ser_tree(source.root(), &mut t);
                writeln!(w, "CASE det {}", i).unwrap();
                writeln!(w, "CFG {} {} {} {}", c.tab, c.width, c.blank, if c.reorder { 1 } else { 0 }).unwrap();
                writeln!(w, "TREE {}", t).unwrap();
                writeln!(w, "COUNT {}", ob.count).unwrap();
                writeln!(w, "OUT {}", hexs(&ob.out)).unwrap();
                writeln!(w, "DOC {}", ob.doc).unwrap();
            }
        }
        w.flush().unwrap();
    }
    // (5) a very large document, then documents of the same shape with other spacing, on one
    // thread: state keyed by position in the tree (spans of detached sources repeat from document
    // to document) or sized by the largest document seen would show here
    {
        let fresh = |s: String, c: Cfg| -> Result<String, String> {
            std::thread::Builder::new().stack_size(256 << 20).spawn(move || obs::format(&s, c)).unwrap().join().unwrap_or(Err("panic".into()))
        };
        // twins: the same document exploded (width 0) and joined (huge width)
        let mut twins: Vec<(String, Cfg, Result<String, String>)> = vec![];
        for i in (0..docs.len()).take(80) {
            if let Ok(_) = &base[i] {
                let c = docs[i].1;
                for w in [0usize, 100_000] {
                    if let Ok(t) = fresh(docs[i].0.clone(), Cfg { width: w, ..c }) {
                        if t.len() < 20_000 {
                            let r = fresh(t.clone(), c);
                            twins.push((t, c, r));
                        }
                    }
                }
            }
        }
        // the large document: formatted results joined until they exceed 600 kB
        let mut big = String::new();
        let mut k = 0usize;
        // only pieces that stay well-formed when they follow themselves
        let safe: Vec<&String> = base
            .iter()
            .filter_map(|r| r.as_ref().ok())
            .filter(|t| t.len() < 50_000 && !obs::parse(&format!("{}\n\n{}\n\n", t, t)).root().erroneous())
            .collect();
        while big.len() < 600_000 && !safe.is_empty() {
            big += safe[k % safe.len()];
            big += "\n\n";
            k += 1;
        }
        if obs::parse(&big).root().erroneous() {
            // fall back to one piece repeated
            big.clear();
            if let Some(t) = safe.iter().max_by_key(|t| t.len()) {
                while big.len() < 600_000 {
                    big += t;
                    big += "\n\n";
                }
            }
        }
        let bigcfg = Cfg { tab: 2, width: 0, blank: 2, reorder: false };
        let twins2 = twins.clone();
        let res: Vec<bool> = std::thread::Builder::new()
            .stack_size(1 << 30)
            .spawn(move || {
                let rb = obs::format(&big, bigcfg);
                eprintln!("det step 5: large document of {} bytes: {}", big.len(), match &rb { Ok(o) => format!("formatted to {} bytes", o.len()), Err(e) => e.clone() });
                twins2.iter().map(|(t, c, r)| &obs::format(t, *c) == r).collect()
            })
            .unwrap()
            .join()
            .unwrap_or_default();
        for (j, ok) in res.iter().enumerate() {
            st.evaluated += 1;
            if !ok {
                st.failures += 1;
                fails.push(fail_json("C17", "det", j as u64, &twins[j].0, twins[j].1, "after-large", "result differs from the result on a fresh thread when a very large document and a document of the same shape were formatted before on this thread", ""));
            }
        }
        if res.len() != twins.len() {
            st.failures += 1;
            fails.push(fail_json("C17", "det", 0, "", bigcfg, "after-large", "the thread that formatted the large document died", ""));
        }
        *st.by_gen.entry("schedules".into()).or_default() += 1;
    }
    // (4) long history: a long-running process formats far more documents than any schedule
    // above; the same small documents, alternately, many times over (then once more from threads)
    {
        let mut small: Vec<usize> = (0..docs.len()).filter(|&i| base[i].is_ok()).collect();
        small.sort_by_key(|&i| docs[i].0.len());
        small.truncate(3);
        let n = if tier == "thorough" { 300_000 } else { 70_000 };
        let mut bad = None;
        if !small.is_empty() {
            for k in 0..n {
                let i = small[k % small.len()];
                if obs::format(&docs[i].0, docs[i].1) != base[i] {
                    bad = Some((i, k));
                    break;
                }
            }
            st.evaluated += n as u64;
            if bad.is_none() {
                let res: Vec<Option<usize>> = std::thread::scope(|sc| {
                    let (docs, base, small) = (&docs, &base, &small);
                    let hs: Vec<_> = (0..4)
                        .map(|_| sc.spawn(move || (0..2000).map(|k| small[k % small.len()]).find(|&i| obs::format(&docs[i].0, docs[i].1) != base[i])))
                        .collect();
                    hs.into_iter().map(|h| h.join().unwrap_or(Some(small[0]))).collect()
                });
                if let Some(Some(i)) = res.into_iter().find(|x| x.is_some()) {
                    bad = Some((i, n));
                }
            }
            if let Some((i, k)) = bad {
                st.failures += 1;
                fails.push(fail_json("C17", "det", i as u64, &docs[i].0, docs[i].1, "history", &format!("result differs from the first result after {} earlier calls in this process", k), ""));
            }
        }
        *st.by_gen.entry("schedules".into()).or_default() += 1;
    }
    // (6) wear: one thread formats the same small document a great many times — one document per
    // (kind of trivia × a few constructs) of the template universe, so that every special path of
    // the printer (directives, comment styles, blank-line handling, every construct) is taken
    // hundreds of times in a row — and after each of them a set of probe documents must still give
    // the results of a fresh thread.  State that accumulates per call *on some path* (a counter
    // that is not restored on an early return, a cache that fills up) shows here.
    {
        let reps = if tier == "thorough" { 5000 } else { 1100 };
        let per_kind = if tier == "thorough" { 12 } else { 5 };
        let mut rw = Rng::new(mix(seed, 0x3EA2));
        let exh_u = crate::universe_size("exh", &fx);
        let mut have = vec![0usize; TRIVIA.len()];
        let mut wear: Vec<(String, Cfg)> = vec![];
        let mut tries = 0;
        while have.iter().any(|&h| h < per_kind) && tries < 200_000 {
            tries += 1;
            let (src, cfg, d) = exh_case(rw.next() % exh_u.max(1));
            let tr = d.split(' ').find_map(|w| w.strip_prefix("trivia").and_then(|x| x.parse::<usize>().ok())).unwrap_or(0);
            if tr < have.len() && have[tr] < per_kind && !obs::parse(&src).root().erroneous() {
                have[tr] += 1;
                wear.push((src, cfg));
            }
        }
        // the fixtures that use the escape hatch, and a few of the sampled documents
        for (name, src) in fx.items.iter() {
            if name.contains("off") && src.len() < 3000 && !obs::parse(src).root().erroneous() {
                wear.push((src.clone(), Cfg::default()));
            }
        }
        for i in (0..docs.len()).step_by((docs.len() / 10).max(1)) {
            if docs[i].0.len() < 3000 {
                wear.push(docs[i].clone());
            }
        }
        // probes: documents whose result differs from their source (so that "left as it is" shows)
        let probes: Vec<usize> = (0..docs.len()).filter(|&i| matches!(&base[i], Ok(o) if *o != docs[i].0) && docs[i].0.len() < 5000).take(16).collect();
        let (docs2, base2, wear2, probes2) = (docs.clone(), base.clone(), wear.clone(), probes.clone());
        let res: Option<(usize, usize)> = std::thread::Builder::new()
            .stack_size(256 << 20)
            .spawn(move || {
                for (wi, (s, c)) in wear2.iter().enumerate() {
                    for _ in 0..reps {
                        let _ = obs::format(s, *c);
                    }
                    for &i in &probes2 {
                        if obs::format(&docs2[i].0, docs2[i].1) != base2[i] {
                            return Some((wi, i));
                        }
                    }
                }
                None
            })
            .unwrap()
            .join()
            .unwrap_or(Some((0, 0)));
        st.evaluated += (wear.len() * (reps + probes.len())) as u64;
        st.by_gen.insert("wear-documents".into(), wear.len() as u64);
        if let Some((wi, i)) = res {
            st.failures += 1;
            let (ws, _) = &wear[wi.min(wear.len().saturating_sub(1))];
            fails.push(fail_json("C17", "det", i as u64, &docs[i].0, docs[i].1, "wear", &format!("result differs from the result on a fresh thread after this thread formatted the following document {} times in a row: {:?}", reps, ws), ""));
        }
        *st.by_gen.entry("schedules".into()).or_default() += 1;
    }
    // (7) value twins: a document with every digit replaced by the next one has the same tree shape
    // — hence, in a detached source, the same span numbers — but other values (column counts, widths,
    // counts of anything).  One thread formats the twin and then the document (and then the twin
    // again): state keyed by position in the tree (a memo of a decision, keyed by span) shows as a
    // result that differs from the one a fresh thread gives.
    {
        let bump = |s: &str| -> String {
            s.chars().map(|c| if c.is_ascii_digit() { char::from(b'0' + ((c as u8 - b'0') % 9) + 1) } else { c }).collect()
        };
        let fresh = |s: String, c: Cfg| -> Result<String, String> {
            std::thread::Builder::new().stack_size(256 << 20).spawn(move || obs::format(&s, c)).unwrap().join().unwrap_or(Err("panic".into()))
        };
        let mut cands: Vec<(String, Cfg)> = vec![];
        for i in 0..docs.len() {
            if base[i].is_ok() && docs[i].0.len() < 5000 && docs[i].0.chars().any(|c| c.is_ascii_digit()) {
                cands.push(docs[i].clone());
            }
            if cands.len() >= 60 { break; }
        }
        let ntab = if tier == "thorough" { 600 } else { 120 };
        let mut rt = Rng::new(mix(seed, 0x7A1B));
        let tu = tab_universe();
        for _ in 0..ntab {
            let (src, cfg, _) = tab_case(rt.next() % tu.max(1));
            cands.push((src, cfg));
        }
        let mut pairs = 0u64;
        for (s, c) in cands.iter() {
            let t = bump(s);
            if t == *s || obs::parse(&t).root().erroneous() || obs::parse(s).root().erroneous() { continue; }
            let (bs, bt) = (fresh(s.clone(), *c), fresh(t.clone(), *c));
            let (s2, t2, c2) = (s.clone(), t.clone(), *c);
            let got: (Result<String, String>, Result<String, String>) = std::thread::Builder::new()
                .stack_size(256 << 20)
                .spawn(move || {
                    let _ = obs::format(&t2, c2);
                    let a = obs::format(&s2, c2);
                    let b = obs::format(&t2, c2);
                    (a, b)
                })
                .unwrap()
                .join()
                .unwrap_or((Err("panic".into()), Err("panic".into())));
            pairs += 1;
            st.evaluated += 2;
            if got.0 != bs {
                st.failures += 1;
                fails.push(fail_json("C17", "det", pairs, s, *c, "value-twin", &format!("result differs from the result on a fresh thread when this thread formatted a document of the same shape with other numbers first: {:?}", t), ""));
            } else if got.1 != bt {
                st.failures += 1;
                fails.push(fail_json("C17", "det", pairs, &t, *c, "value-twin", &format!("result differs from the result on a fresh thread when this thread formatted a document of the same shape with other numbers first: {:?}", s), ""));
            }
        }
        st.by_gen.insert("value-twin-pairs".into(), pairs);
        *st.by_gen.entry("schedules".into()).or_default() += 1;
    }
    // (8) indentation twins, across processes: a document and a variant of the same length in which
    // every indented line keeps its first 0..n characters' worth of head but has some of its leading
    // blanks moved behind its first word (so lengths, line counts and the first line of every token
    // agree, the indentation does not).  State keyed lossily (a length, a hash of a prefix) and kept
    // for the whole process shows when one process formats twin, document, twin and the results
    // differ from those of processes that format only the one or only the other.
    {
        let shift = |s: &str, k: usize| -> String {
            let mut out = String::new();
            for (i, line) in s.split('\n').enumerate() {
                if i > 0 {
                    out.push('\n');
                }
                let lead = line.len() - line.trim_start_matches(' ').len();
                if i == 0 || lead < k + 1 || line.trim().is_empty() {
                    out.push_str(line);
                    continue;
                }
                let body = &line[lead..];
                let cut = body.find(' ').unwrap_or(body.len());
                out.push_str(&line[..lead - k]);
                out.push_str(&body[..cut]);
                out.push_str(&" ".repeat(k));
                out.push_str(&body[cut..]);
            }
            out
        };
        let mut cands: Vec<(String, Cfg)> = vec![];
        // block comments with a long first line, in several positions and indentations
        let heads = ["/* SPDX-License-Identifier: Apache-2.0 -- The Example Project, all rights reserved", "/* A long first line of a block comment that says what the following lines are about"];
        let mut rc = Rng::new(mix(seed, 0x1D7));
        for h in heads {
            for ind in [2usize, 3, 4, 6, 8] {
                for ctxk in 0..4 {
                    let pad = " ".repeat(ind);
                    let com = format!("{}\n{}alpha beta\n{}gamma delta */", h, pad, pad);
                    let src = match ctxk {
                        0 => format!("{}\n\nHello.\n", com),
                        1 => format!("#let f() = {{\n  {}\n  x\n}}\n", com.replace('\n', "\n  ")),
                        2 => format!("#f(\n  {},\n  a,\n)\n", com.replace('\n', "\n  ")),
                        _ => format!("- item\n  {}\n  more\n", com.replace('\n', "\n  ")),
                    };
                    cands.push((src, Cfg { tab: 2, width: [40usize, 80, 120][rc.below(3)], blank: 2, reorder: false }));
                }
            }
        }
        for i in 0..docs.len() {
            if cands.len() >= if tier == "thorough" { 260 } else { 100 } {
                break;
            }
            if base[i].is_ok() && docs[i].0.len() < 4000 && docs[i].0.contains("\n  ") {
                cands.push(docs[i].clone());
            }
        }
        let run = |items: &[(String, Cfg)], tag: &str| -> Vec<String> {
            let list = format!("{}/twin.{}.txt", outdir, tag);
            let mut f = std::fs::File::create(&list).unwrap();
            for (s, c) in items {
                writeln!(f, "{} {} {} {} {}", c.tab, c.width, c.blank, if c.reorder { 1 } else { 0 }, hexs(s)).unwrap();
            }
            drop(f);
            match std::process::Command::new(&exe).arg("fmtlist").arg(&list).output() {
                Ok(o) => String::from_utf8_lossy(&o.stdout).lines().map(|l| l.to_string()).collect(),
                Err(_) => vec![],
            }
        };
        let mut pairs = 0u64;
        for (s, c) in cands.iter() {
            for k in [1usize, 2] {
                let t = shift(s, k);
                if t == *s || t.len() != s.len() || obs::parse(&t).root().erroneous() || obs::parse(s).root().erroneous() {
                    continue;
                }
                let rs = run(&[(s.clone(), *c)], "s");
                let rt = run(&[(t.clone(), *c)], "t");
                let both = run(&[(t.clone(), *c), (s.clone(), *c), (t.clone(), *c)], "b");
                pairs += 1;
                st.evaluated += 3;
                if rs.len() != 1 || rt.len() != 1 || both.len() != 3 {
                    continue;
                }
                if both[1] != rs[0] {
                    st.failures += 1;
                    fails.push(fail_json("C17", "det", pairs, s, *c, "indent-twin", &format!("result differs from the result of a process that formats only this document, when the process formatted this document of the same length first: {:?}", t), ""));
                } else if both[0] != rt[0] || both[2] != rt[0] {
                    st.failures += 1;
                    fails.push(fail_json("C17", "det", pairs, &t, *c, "indent-twin", &format!("result differs from the result of a process that formats only this document, when the process also formatted: {:?}", s), ""));
                }
            }
        }
        st.by_gen.insert("indent-twin-pairs".into(), pairs);
        *st.by_gen.entry("schedules".into()).or_default() += 1;
    }
    finish(outdir, vec![(st, fails)]);
}

pub fn fmtlist(path: &str) {
    let text = std::fs::read_to_string(path).unwrap_or_default();
    for l in text.lines() {
        let p: Vec<&str> = l.split(' ').collect();
        if p.len() < 5 {
            continue;
        }
        let cfg = Cfg { tab: p[0].parse().unwrap(), width: p[1].parse().unwrap(), blank: p[2].parse().unwrap(), reorder: p[3] == "1" };
        let src = unhex(p[4]).unwrap_or_default();
        match obs::format(&src, cfg) {
            Ok(o) => println!("{}", hexs(&o)),
            Err(e) => println!("!{}", e),
        }
    }
}

// ---------------------------------------------------------------------------------------------
// C18: recursive families
// ---------------------------------------------------------------------------------------------
/// `vh flat1 <family> <n>`: replay of a flat-family measurement (time(4n) against time(n), best of three).
pub fn flat1(fam: &str, n: usize) -> bool {
    let cfg = Cfg { tab: 2, width: 80, blank: 2, reorder: true };
    let measure = |k: usize| -> f64 {
        let src = crate::gens::flat_case(fam, k);
        let source = Source::detached(src);
        let mut best = f64::MAX;
        for _ in 0..3 {
            let t0 = Instant::now();
            let _ = crate::observe(&source, cfg);
            best = best.min(t0.elapsed().as_secs_f64());
        }
        best
    };
    let (ta, tb) = (measure(n), measure(4 * n));
    let bad = tb / ta > 10.0 && tb > 0.3;
    println!("{} flat family {}: {} repetitions {:.3}s, {} repetitions {:.3}s, ratio {:.1} (proportional work gives about 4)", if bad { "FAIL" } else { "PASS" }, fam, n, ta, 4 * n, tb, tb / ta);
    !bad
}

fn perf(tier: &str, outdir: &str) {
    std::fs::create_dir_all(outdir).unwrap();
    let maxd = if tier == "thorough" { 400 } else { 48 };
    let flat_thorough = tier == "thorough";
    let mut st = Stats::default();
    let mut fails = vec![];
    let f = std::fs::File::create(format!("{}/cases.0.txt", outdir)).unwrap();
    let mut w = std::io::BufWriter::new(f);
    let mut table = vec![];
    let h = std::thread::Builder::new().stack_size(1 << 30).spawn(move || {
        for fam in PERF_FAMILIES {
            let mut pts: Vec<(usize, u64, u64, f64)> = vec![];
            let mut d = 1usize;
            let mut slow = false;
            while d <= maxd {
                let src = perf_case(fam, d);
                let source = Source::detached(src.clone());
                if source.root().erroneous() {
                    d += 1;
                    continue;
                }
                for width in [0usize, 40, 120] {
                    let cfg = Cfg { tab: 2, width, blank: 2, reorder: false };
                    let t0 = Instant::now();
                    let Ok(ob) = crate::observe(&source, cfg) else {
                        fails.push(fail_json("C18", "perf", d as u64, &src, cfg, "no-output", "panic or refusal", ""));
                        continue;
                    };
                    let mut dt = t0.elapsed().as_secs_f64();
                    if dt < 0.05 {
                        // re-measure small cases: best of three
                        for _ in 0..2 {
                            let t1 = Instant::now();
                            let _ = crate::observe(&source, cfg);
                            dt = dt.min(t1.elapsed().as_secs_f64());
                        }
                    }
                    let nodes = ser::tree_size(source.root()) as u64;
                    st.evaluated += 1;
                    let h = crate::hash_str_pub(&src);
                    st.distinct.insert(h);
                    if d > 1 {
                        st.nontrivial.insert(h);
                    }
                    if ob.count > 2 * nodes {
                        st.failures += 1;
                        fails.push(fail_json("C18", "perf", d as u64, &src, cfg, "linear", &format!("family {} depth {}: {} conversions for {} nodes", fam, d, ob.count, nodes), ""));
                        // do not go deeper in a family that is already super-linear (exponential
                        // families exhaust memory a few levels further)
                        slow = true;
                        break;
                    }
                    if width == 40 {
                        pts.push((d, ob.count, nodes, dt));
                        if d <= 48 && src.len() < 20000 {
                            let mut t = String::new();
                            ser::ser_tree(source.root(), &mut t);
                            writeln!(w, "CASE perf-{} {}", fam, d).unwrap();
                            writeln!(w, "CFG {} {} {} {}", cfg.tab, cfg.width, cfg.blank, 0).unwrap();
                            writeln!(w, "TREE {}", t).unwrap();
                            writeln!(w, "COUNT {}", ob.count).unwrap();
                            writeln!(w, "OUT {}", hexs(&ob.out)).unwrap();
                            writeln!(w, "DOC {}", ob.doc).unwrap();
                        }
                    }
                    // time: worse than quadratic growth between depth d/2 and d
                    if width == 40 && dt > 0.02 {
                        if let Some(p) = pts.iter().find(|p| p.0 * 2 == d) {
                            if p.3 > 0.002 && dt / p.3 > 6.0 {
                                st.failures += 1;
                                fails.push(fail_json("C18", "perf", d as u64, &src, cfg, "time", &format!("family {}: time grew {:.1}x from depth {} to {} ({:.4}s -> {:.4}s)", fam, dt / p.3, p.0, d, p.3, dt), ""));
                            }
                        }
                    }
                    if dt > 0.3 {
                        // far beyond anything linear work could need at these sizes: stop this family
                        if nodes < 20_000 {
                            st.failures += 1;
                            fails.push(fail_json("C18", "perf", d as u64, &src, cfg, "time", &format!("family {} depth {}: {:.2} s for {} nodes ({} conversions)", fam, d, dt, nodes, ob.count), ""));
                        }
                        slow = true;
                        break;
                    }
                }
                if slow {
                    break;
                }
                d = if d < 16 { d + 1 } else if d < 48 { d + 4 } else { d * 2 };
            }
            table.push(format!("{}: {}", fam, pts.iter().map(|p| format!("d{}={}c/{}n/{:.1}ms", p.0, p.1, p.2, p.3 * 1e3)).collect::<Vec<_>>().join(" ")));
        }
        // flat families: time(4n) against time(n) for one construct repeated at a single level
        let bases: &[usize] = if flat_thorough { &[30_000, 60_000] } else { &[30_000] };
        for fam in crate::gens::FLAT_FAMILIES {
            for &n0 in bases {
                let cfg = Cfg { tab: 2, width: 80, blank: 2, reorder: true };
                let mut n = n0;
                let measure = |k: usize| -> Option<(f64, u64, u64, usize)> {
                    let src = crate::gens::flat_case(fam, k);
                    let source = Source::detached(src.clone());
                    if source.root().erroneous() {
                        return None;
                    }
                    let nodes = ser::tree_size(source.root()) as u64;
                    let t0 = Instant::now();
                    let ob = crate::observe(&source, cfg).ok()?;
                    Some((t0.elapsed().as_secs_f64(), ob.count, nodes, src.len()))
                };
                // cheap constructs are repeated more often, until the larger run takes a measurable time
                let mut probe = measure(4 * n);
                while let Some(p) = probe {
                    if p.0 >= 0.25 || n >= 16 * n0 {
                        break;
                    }
                    n *= 4;
                    probe = measure(4 * n);
                }
                let (Some(a), Some(b)) = (measure(n), probe) else {
                    fails.push(fail_json("C18", "flat", n as u64, &format!("flat family {} x {}", fam, n), cfg, "no-output", "panic, refusal or syntax error", ""));
                    st.failures += 1;
                    continue;
                };
                st.evaluated += 2;
                st.distinct.insert(crate::hash_str_pub(&format!("flat {} {}", fam, n)));
                st.nontrivial.insert(crate::hash_str_pub(&format!("flat {} {}", fam, n)));
                *st.by_gen.entry("flat".into()).or_default() += 2;
                if b.1 > 2 * b.2 {
                    st.failures += 1;
                    fails.push(fail_json("C18", "flat", n as u64, &format!("flat family {} x {}", fam, 4 * n), cfg, "linear", &format!("{} conversions for {} nodes", b.1, b.2), ""));
                    continue;
                }
                let (mut ta, mut tb) = (a.0, b.0);
                let mut tries = 0;
                // a suspicious ratio is re-measured (best of four) before it counts
                while tb / ta > 10.0 && tb > 0.3 && tries < 3 {
                    if let (Some(a2), Some(b2)) = (measure(n), measure(4 * n)) {
                        ta = ta.min(a2.0);
                        tb = tb.min(b2.0);
                    }
                    tries += 1;
                }
                table.push(format!("{} {}->{}: {:.0}->{:.0}ms x{:.1}", fam, n, 4 * n, ta * 1e3, tb * 1e3, tb / ta));
                if tb / ta > 10.0 && tb > 0.3 {
                    st.failures += 1;
                    fails.push(fail_json("C18", "flat", n as u64, &format!("flat family {} x {} (generated by `vh flat {} {}`)", fam, 4 * n, fam, 4 * n), cfg, "time",
                        &format!("flat family {}: time grew {:.1}x from {} to {} repetitions ({:.3}s -> {:.3}s; proportional work gives about 4x)", fam, tb / ta, n, 4 * n, ta, tb), ""));
                }
            }
        }
        w.flush().unwrap();
        let nflat = crate::gens::FLAT_FAMILIES.len() * bases.len();
        let k = table.len() - nflat.min(table.len());
        st.samples = vec![format!("flat families, time(n) -> time(4n): {}", table[k..].join("; ")), table[..k].first().cloned().unwrap_or_default()];
        (st, fails)
    });
    let (st, fails) = h.unwrap().join().unwrap();
    finish(outdir, vec![(st, fails)]);
}

// ---------------------------------------------------------------------------------------------
// exhaustive small ties
// ---------------------------------------------------------------------------------------------
fn wsset(out: &mut dyn std::io::Write) {
    let mut v = vec![];
    for c in 0..=0x10FFFFu32 {
        if let Some(ch) = char::from_u32(c) {
            if ch.is_whitespace() {
                v.push(c.to_string());
            }
        }
    }
    writeln!(out, "WS {}", v.join(" ")).unwrap();
    let mut v = vec![];
    for c in 0..=0x10FFFFu32 {
        if let Some(ch) = char::from_u32(c) {
            if typst_syntax::is_newline(ch) {
                v.push(c.to_string());
            }
        }
    }
    writeln!(out, "NL {}", v.join(" ")).unwrap();
    // strip on a fixed set of strings built from the interesting characters
    let alphabet = ["a", " ", "\t", "\n", "\r", "\u{a0}", "\u{2028}", "\u{85}", "é", "\u{3000}", "\u{b}", "\r\n"];
    let mut seen = HashSet::new();
    let mut r = Rng::new(7);
    for n in 0..6000 {
        let len = if n < 13 * 13 + 13 + 1 { 0 } else { 1 + r.below(9) };
        let s: String = if n == 0 {
            String::new()
        } else if n <= 12 {
            alphabet[n - 1].to_string()
        } else if n < 13 + 144 {
            let k = n - 13;
            format!("{}{}", alphabet[k / 12], alphabet[k % 12])
        } else {
            (0..len.max(1)).map(|_| r.pick(&alphabet)).collect()
        };
        if seen.insert(s.clone()) {
            writeln!(out, "STRIP {} {}", hexs(&s), hexs(&typstyle_core::verif::strip_trailing_whitespace(&s))).unwrap();
        }
    }
}

fn chainwidth(out: &mut dyn std::io::Write) {
    let mut r = Rng::new(11);
    let mut ws: Vec<usize> = (0..4096).collect();
    for _ in 0..4000 {
        ws.push(r.below(1 << 20));
    }
    for _ in 0..2000 {
        ws.push((r.next() >> (r.below(40) + 1)) as usize);
    }
    ws.push(usize::MAX / 2);
    ws.push(1 << 24);
    ws.push((1 << 24) + 1);
    ws.push((1 << 25) + 3);
    for w in ws {
        writeln!(out, "CW {} {}", w, typstyle_core::Config::new().with_width(w).chain_width()).unwrap();
    }
}
