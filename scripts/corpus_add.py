#!/usr/bin/env python3
"""Add the demonstration inputs of a seeded change and the failing inputs the checks found for it to
the regression corpus (/verif/corpus, universe `corp`).  usage: corpus_add.py <seed-id> ...
After adding, re-validate the corpus universe: scripts/revalidate.py --gens corp"""
import glob, hashlib, json, os, re, sys
V = os.path.dirname(os.path.dirname(os.path.abspath(__file__)))
for sid in sys.argv[1:]:
    d = f"{V}/seeded/{sid}"
    texts = []
    for f in sorted(glob.glob(d + "/*.typ")):
        texts.append(("seed", open(f, encoding="utf-8", errors="replace").read()))
    found = []
    try:
        for m in re.finditer(r"replay=(\S+\.json)", open(d + "/detect.txt").read()):
            try:
                r = json.load(open(os.path.join(V, m.group(1))))
                if r.get("input") and r.get("scenario") is None and len(r["input"]) < 4000:
                    found.append(r["input"])
            except Exception:
                pass
    except Exception:
        pass
    for t in sorted(set(found), key=len)[:4]:
        texts.append(("found", t))
    n = 0
    for kind, t in texts:
        if len(t) > 20000:
            continue
        h = hashlib.sha256(t.encode()).hexdigest()[:10]
        path = f"{V}/corpus/{kind}-{sid}-{h}.typ"
        if not os.path.exists(path):
            open(path, "w", encoding="utf-8").write(t)
            n += 1
    print(sid, "added", n)
