#!/bin/bash
# Apply every seeded change in /verif/seeded/*/patch.diff to /repo in turn, run the quick check of the
# property it breaks (meta.json "property"), record the verdict in seeded/<id>/detect.txt, undo.
cd /verif
for d in seeded/*/; do
  id=$(basename $d)
  [ -n "$1" ] && [ "$1" != "$id" ] && continue
  prop=$(python3 -c "import json;print(json.load(open('$d/meta.json'))['property'])")
  git -C /repo apply /verif/$d/patch.diff || { echo "$id: patch does not apply" | tee $d/detect.txt; continue; }
  cp evidence/$prop.json /tmp/evidence-$prop.keep 2>/dev/null   # evidence must come from the unchanged tree
  ./check $prop quick > /tmp/seedrun.log 2>&1; rc=$?
  git -C /repo checkout -- .
  cp /tmp/evidence-$prop.keep evidence/$prop.json 2>/dev/null
  { echo "check $prop quick on /repo + $id/patch.diff: exit $rc"; grep -E "^VIOLATION|^$prop quick" /tmp/seedrun.log | head -6; } | tee $d/detect.txt
done
git -C /repo status --short | head -3
