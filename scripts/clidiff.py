import os,collections,sys
work=sys.argv[1]
exp={};mod={};sc={}
for fn in os.listdir(work):
    if fn.startswith('expected.'):
        for l in open(os.path.join(work,fn)):
            p=l.split(' ');exp[p[2]]=l.strip()
    if fn.endswith('.out'):
        for l in open(os.path.join(work,fn)):
            p=l.split(' ')
            if len(p)>2: mod[p[2]]=l.strip()
    if fn.startswith('cases.') and fn.endswith('.txt'):
        for l in open(os.path.join(work,fn)):
            p=l.split(' ')
            if len(p)>2: sc[p[1]]=l.strip()
cnt=collections.Counter()
ex={}
def un(h):
    try: return bytes.fromhex(h).decode() if h!='-' else ''
    except: return h
for k in exp:
    e=dict(kv.split('=',1) for kv in exp[k].split(' ')[3:] if '=' in kv)
    m=dict(kv.split('=',1) for kv in mod.get(k,'').split(' ')[3:] if '=' in kv)
    dk=tuple(sorted(x for x in set(e)|set(m) if e.get(x)!=m.get(x)))
    cnt[dk]+=1
    ex.setdefault(dk,[]).append((k,e,m))
print(cnt)
for dk,l in ex.items():
    if dk:
        for (k,e,m) in l[:2]:
            print(k,dk, sc.get(k,'')[:150])
            for x in dk:
                print('  ',x,'impl=',repr(un(e.get(x,''))[:300]),'model=',repr(un(m.get(x,''))[:300]))
