#!/usr/bin/env python3
"""usage: triage.py <prop> <gen> <from> <to>: oracle failures of a slice of a universe, clustered."""
import json, collections, subprocess, sys, os, re
V = os.path.dirname(os.path.dirname(os.path.abspath(__file__)))
p, g, a, b = sys.argv[1:5]
out = f"{V}/work/triage-{p}-{g}"
subprocess.run(["rm", "-rf", out])
env = dict(os.environ); env.pop("VH_KNOWN", None)
subprocess.run([f"{V}/harness/target/release/vh", "validate", p, g, a, b, out], env=env, stdout=subprocess.DEVNULL)
c = collections.Counter(); ex = {}
for l in open(f"{out}/oracle.jsonl"):
    j = json.loads(l)
    k = j.get("kind", "?") + " " + re.sub(r"[0-9]+", "N", j.get("msg", ""))[:70]
    c[k] += 1
    if k not in ex or len(j.get("src", "")) < len(ex[k].get("src", "")):
        ex[k] = j
print(sum(c.values()), "failures")
for k, v in c.most_common(60):
    e = ex[k]
    print(v, k, "|", e.get("gen"), e.get("idx"), e.get("cfg"), repr(e.get("src", ""))[:int(sys.argv[5]) if len(sys.argv) > 5 else 200])
