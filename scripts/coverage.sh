#!/bin/bash
# Measures which regions/lines of /repo/crates/typstyle-core/src the harness runs actually execute
# (llvm source coverage, nightly toolchain).  Not part of any check: a diagnostic for generator gaps.
# usage: scripts/coverage.sh [seed]      report -> stdout, uncovered lines -> stderr
set -e
seed=${1:-1}
T=$(mktemp -d /tmp/vcov.XXXX)
B=$(dirname $(rustup +nightly which rustc))/../lib/rustlib/x86_64-unknown-linux-gnu/bin
cd /verif/harness
CARGO_TARGET_DIR=$T/target RUSTFLAGS="--cfg typstyle_verif -C instrument-coverage" LLVM_PROFILE_FILE=$T/build-%p.profraw \
  cargo +nightly build --release --offline -q
export VH_KNOWN=/verif/known-indices.json LLVM_PROFILE_FILE=$T/prof-%p-%m.profraw
$T/target/release/vh printer C01 quick $seed $T/C01 >/dev/null 2>&1 || true
$T/target/release/vh printer C19 quick $seed $T/C19 >/dev/null 2>&1 || true
$T/target/release/vh range quick $seed $T/C13 >/dev/null 2>&1 || true
$T/target/release/vh total quick $seed $T/C05 >/dev/null 2>&1 || true
$B/llvm-profdata merge -sparse $T/prof-*.profraw -o $T/all.profdata
$B/llvm-cov report $T/target/release/vh -instr-profile=$T/all.profdata --sources /repo/crates/typstyle-core/src 2>/dev/null \
  | awk '{printf "%-28s regions %5s missed %4s %8s | lines %5s missed %4s %8s\n", $1,$2,$3,$4,$8,$9,$10}'
$B/llvm-cov show $T/target/release/vh -instr-profile=$T/all.profdata --sources /repo/crates/typstyle-core/src --show-line-counts-or-regions 2>/dev/null \
  | grep -E '^\s+[0-9]+\|\s+0\||^/repo' | grep -B1 -E '^\s+[0-9]+\|\s+0\|' | cut -c1-160 >&2
rm -rf $T; rm -f /verif/harness/*.profraw /repo/crates/*/*.profraw
