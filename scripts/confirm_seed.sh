#!/bin/bash
# usage: confirm_seed.sh <worktree> <seed-id>
# Confirms a seeded change in its own scratch worktree: suite result with the patch, the
# demonstration with and without the patch.  Copies SEED/ to /verif/seeded/<id>/.
wt=$1; id=$2
out=/verif/seeded/$id
mkdir -p $out
cp $wt/SEED/patch.diff $wt/SEED/meta.json $out/ 2>/dev/null
for f in $wt/SEED/*; do case "$f" in *.typ|*.sh|*.rs|*.txt|*.py|*.md) cp "$f" $out/;; esac; done
export CARGO_TARGET_DIR=$wt/target CARGO_NET_OFFLINE=true
cd $wt
{
echo "== $(date -u) confirm $id in $wt"
git status --short | grep -v SEED | head
echo "== suite with the patch"
cargo test --workspace --no-fail-fast --offline 2>&1 | grep -E "^test result" | awk '{p+=$4; f+=$6} END {print "passed="p" failed="f}'
demo=$(ls SEED/demo.sh SEED/demo.py 2>/dev/null | head -1)
echo "== demonstration with the patch ($demo)"
cargo build --offline -q -p typstyle 2>/dev/null
bash $demo > /tmp/demo-$id-with.log 2>&1; echo "exit=$?"; tail -5 /tmp/demo-$id-with.log
echo "== demonstration without the patch"
git apply -R SEED/patch.diff && cargo build --offline -q -p typstyle 2>/dev/null; bash $demo > /tmp/demo-$id-without.log 2>&1; echo "exit=$?"; tail -3 /tmp/demo-$id-without.log
git apply SEED/patch.diff; cargo build --offline -q -p typstyle 2>/dev/null
} > $out/confirm.log 2>&1
cat $out/confirm.log
