#!/usr/bin/env python3
"""Evaluate every printer property's oracle on the WHOLE case universes (thorough width sweep) on the
unchanged tree and record the failing (generator, index, case hash) triples in known-indices.json.
Run after any change to the generators, oracles or shapes.  usage: revalidate.py [Cxx ...]"""
import json, os, subprocess, sys, time
V = os.path.dirname(os.path.dirname(os.path.abspath(__file__)))
VH = f"{V}/harness/target/release/vh"
# usage: revalidate.py [--gens g1,g2] [Cxx ...]   (--gens: only these universes are re-evaluated,
# the recorded rows of the other universes are kept)
ARGS = sys.argv[1:]
ONLY = None
if ARGS and ARGS[0] == "--gens":
    ONLY = set(ARGS[1].split(","))
    ARGS = ARGS[2:]
PROPS = ARGS or ["C01", "C03", "C04", "C06", "C07", "C08", "C09", "C10", "C11", "C12", "C18", "C19", "C13"]
UNIV = {"fix": None, "exh": None, "gram": 1_000_000, "imp": 200_000, "nl": 300_000, "mut": 600_000, "corp": None, "nest": None, "tab": None, "raw": None, "exh2": None}
if ONLY:
    UNIV = {g: n for g, n in UNIV.items() if g in ONLY}
path = f"{V}/known-indices.json"
try:
    known = {}
    for line in open(path):
        line = line.strip().rstrip(",")
        if line.startswith('"C'):
            k, v = line.split(":", 1)
            known[json.loads(k)] = json.loads(v)
except Exception:
    known = {}
env = dict(os.environ)
env.pop("VH_KNOWN", None)
# the universes are validated on the unchanged tree: /repo must be clean, and the harness is rebuilt
# from it first (a binary left over from a seeded-change run would poison the residue)
dirty = subprocess.run(["git", "-C", "/repo", "status", "--porcelain"], capture_output=True, text=True).stdout.strip()
if dirty:
    sys.exit("revalidate: /repo has uncommitted changes:\n" + dirty)
b = subprocess.run(["cargo", "build", "--release", "--offline"], cwd=f"{V}/harness", env=dict(env, CARGO_NET_OFFLINE="true"), capture_output=True, text=True)
if b.returncode != 0:
    sys.exit("revalidate: harness does not build:\n" + b.stderr[-2000:])
for p in PROPS:
    t0 = time.time()
    rows = []
    if ONLY:
        if p == "C13":
            continue
        rows = [r for r in known.get(p, []) if r[0] not in ONLY]
    if p == "C13":
        out = f"{V}/work/validate-C13"
        subprocess.run(["rm", "-rf", out])
        subprocess.run([VH, "range", "validate", "0", out], env=env, stdout=subprocess.DEVNULL)
        for l in open(f"{out}/oracle.jsonl"):
            r = json.loads(l)
            rows.append([r["gen"], r["idx"], r["hash"]])
        subprocess.run(["rm", "-rf", out])
    for gen in ([] if p == "C13" else UNIV):
        out = f"{V}/work/validate-{p}-{gen}"
        subprocess.run(["rm", "-rf", out])
        n = UNIV[gen] or 10**9
        subprocess.run([VH, "validate", p, gen, "0", str(n), out], env=env, stdout=subprocess.DEVNULL)
        for l in open(f"{out}/oracle.jsonl"):
            r = json.loads(l)
            rows.append([r["gen"], r["idx"], r["hash"]])
        subprocess.run(["rm", "-rf", out])
    # two cfg variants of one index give two rows: keep all
    known[p] = sorted(set(map(tuple, rows)))
    if p == "C01":
        known["C02"] = known[p]
    print(p, len(known[p]), "known failing cases", round(time.time() - t0), "s", flush=True)
    with open(path, "w") as f:
        f.write("{\n")
        f.write(",\n".join(f'"{k}": {json.dumps([list(x) for x in v], separators=(",", ":"))}' for k, v in sorted(known.items())))
        f.write("\n}\n")
