#!/bin/bash
# usage: try_seed.sh <patch> <prop>... : apply a seeded change to /repo, run the quick checks, undo it.
patch=$1; shift
cd /verif
git -C /repo apply "$patch" || { echo "patch does not apply"; exit 2; }
for p in "$@"; do
  ./check $p quick 2>&1 | tail -4
done
git -C /repo checkout -- .
git -C /repo status --short | head -3
