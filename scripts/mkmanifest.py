#!/usr/bin/env python3
"""Regenerate MANIFEST.json from props.py."""
import json, subprocess, sys, os
V = os.path.dirname(os.path.dirname(os.path.abspath(__file__)))
sys.path.insert(0, V)
from props import PROPS
TECH = {
 "C01": "Lean 4: renderer layout-soundness theorems + Doc-level correspondence of the complete printer model; tree-equivalence oracle on the real parser",
 "C02": "Lean 4: printer-side theorems + Doc correspondence; tree-equivalence oracle (the compile comparison is not modelled)",
 "C03": "Lean 4: strip idempotence theorem + Doc correspondence; byte-exact second-pass oracle",
 "C04": "Lean 4: lcSafe certificate with soundness theorem evaluated on the implementation's own Doc; re-parse oracle",
 "C05": "Lean 4: total model (kernel-checked termination) + correspondence on hostile inputs; catch_unwind/watchdog search",
 "C06": "Lean 4: lcSafe certificate + comment-emission lemma; comment/neighbour oracle",
 "C07": "Lean 4: model correspondence (verbatim atoms) + directive oracle",
 "C08": "Lean 4: model correspondence (markup lines) + markup oracle",
 "C09": "Lean 4: model correspondence (math regions) + math white-space oracle",
 "C10": "Lean 4: model correspondence (literal atoms) + literal oracle",
 "C11": "Lean 4 proof of strip_trailing_whitespace for all strings + correspondence",
 "C12": "Lean 4: renderer scaling/saturation theorems + scale certificate on the implementation's Docs",
 "C13": "Lean 4: model of partial.rs/utils.rs with covering theorems + correspondence; splice oracle",
 "C14": "Lean 4 proof over the CLI model for every lib/tree/invocation + correspondence with the real binary",
 "C15": "Lean 4 proof over the CLI model + correspondence with the real binary",
 "C16": "Lean 4 refinement theorems over the CLI model + correspondence with the real binary and the library",
 "C17": "Lean 4: model is a function + correspondence; threads x orders x processes exploration",
 "C18": "Lean 4 proof: linear-by-construction model monad, calls <= 4*size for all trees; hook counter tied exactly",
 "C19": "Lean 4 proof: import order is a sorted permutation under the guards, identity otherwise; correspondence under both settings",
}
checks = []
for pid, P in sorted(PROPS.items()):
    checks.append({
        "property_id": pid,
        "quick_cmd": f"./check {pid} quick",
        "thorough_cmd": f"./check {pid} thorough",
        "evidence_file": f"evidence/{pid}.json",
        "replay_cmd_template": f"./check {pid} --replay {{path}}",
        "engine": "lean4-model+harness",
        "level_claimed": {"category": P["level"], "text": P["explanation"], "design_ref": f"DESIGN.md section 4 {pid}"},
        "level_note": "trusted: Lean 4.33 kernel (axioms per theorem in the evidence, subset of propext, Classical.choice, Quot.sound; no sorry/admit/native_decide/own axioms); hand-written model tied by the per-run correspondence; Rust serialiser and Lean protocol parser; " + "; ".join(P.get("assumptions", [])),
        "technique": TECH[pid],
    })
hook = subprocess.check_output(["git", "-C", "/repo", "log", "--format=%H", "-1", "--grep=verif hook"]).decode().strip()
m = {"version": 1,
     "setup_cmd": "./check setup",
     "hooks": {"guard": "typstyle_verif",
               "enable": "RUSTFLAGS=--cfg typstyle_verif (set in /verif/harness/.cargo/config.toml; the harness path-depends on /repo/crates/typstyle-core); the CLI binary used by C14-C16 is built without the guard",
               "baseline_off_cmd": "cd /repo && cargo test --workspace --no-fail-fast --offline",
               "source_commits": [hook], "add_only": True},
     "engines": [{"name": "lean4-model+harness", "path": "lean/ (lake project TypstyleModel, driver exe), harness/ (Rust crate vh), check (driver script)",
                  "serves_properties": sorted(PROPS),
                  "kind_free_text": "machine-checked proof in Lean 4 about a hand-written executable model of typstyle, tied to /repo on every run by a correspondence check (line protocol between a Rust harness linked against the working tree and the compiled Lean driver), plus oracle search with the real parser"}],
     "checks": checks,
     "notes": "See DESIGN.md. A broken correspondence or proof without a failing input is reported as VIOLATION ... no-failing-input-found. Known findings: known-findings.json (witnesses, replayed every run) and known-indices.json (residue of the pre-validated case universes).",
     "not_applicable": []}
json.dump(m, open(f"{V}/MANIFEST.json", "w"), indent=1)
print("ok", len(checks))
