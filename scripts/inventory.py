#!/usr/bin/env python3
"""Source inventories (DESIGN 2.4): counts of the code sites a property's model argument depends
on, per file.  `inventory.py write` records the current tree in inventory.json; the checks compare.
Comments and string literals are stripped; the guarded verif hook file is ignored."""
import json, os, re, sys, glob
V = os.path.dirname(os.path.dirname(os.path.abspath(__file__)))
CORE = "/repo/crates/typstyle-core/src"
CLI = "/repo/crates/typstyle/src"
PATTERNS = {
    # indentation: every read of the unit and every literal indentation step
    "C12": [(CORE, r"\btab_spaces\b"), (CORE, r"\.nest\("), (CORE, r"\.hang\("), (CORE, r"\.align\(")],
    # the reorder flag
    "C19": [(CORE, r"\breorder_import_items\b"), (CLI, r"\breorder_import_items\b")],
    # hidden state / sources of nondeterminism in the library
    "C17": [(CORE, r"(?<!')\bstatic\b"), (CORE, r"thread_local!"), (CORE, r"\b(Lazy|LazyLock|OnceCell|OnceLock|RefCell|Mutex|RwLock|Atomic\w+)\b"),
            (CORE, r"\bCell\b"), (CORE, r"\b(HashMap|HashSet|FxHashMap|FxHashSet)\b"), (CORE, r"\.(iter|keys|values|drain|into_iter)\(\)\s*//\s*hash")],
    # effects of the command line front end
    "C14": [(CLI, r"\bfs::write\b"), (CLI, r"\bprint(ln)?!"), (CLI, r"\bstd::process::exit\b|\.exit\(\)"), (CLI, r"\bfs::(remove|rename|create|copy|set_permissions)\w*\b")],
    "C15": [(CLI, r"\bfs::write\b"), (CLI, r"\bfs::(remove|rename|create|copy|set_permissions)\w*\b"), (CLI, r"\bis_file\(\)|\bis_dir\(\)|\bfollow_links\b")],
    "C16": [(CLI, r"\bprint(ln)?!"), (CLI, r"\bstdout\(\)|\bwrite(_all)?\("), (CLI, r"\bto_config\b"), (CORE, r"\bformat_with_width\b")],
    # panic-capable operations
    "C05": [(CORE, r"\.unwrap\(\)"), (CORE, r"\.expect\("), (CORE, r"\bunreachable!|\bpanic!|\bassert!|\btodo!|\bunimplemented!"), (CORE, r"\[[^\]\n]*\.\.[^\]\n]*\]"), (CORE, r"\.remove\(")],
    "C13": [("/repo/crates/typstyle-core/src/partial.rs", r"\.unwrap\(\)|\.expect\(|\[[^\]\n]*\.\.[^\]\n]*\]"),
            ("/repo/crates/typstyle-core/src/utils.rs", r"\.unwrap\(\)|\.expect\(|\[[^\]\n]*\.\.[^\]\n]*\]")],
    # the conversion entry points that are counted
    "C18": [(CORE, r"crate::verif::tick\(\)")],
}

def strip(src):
    src = re.sub(r"//[^\n]*", "", src)
    src = re.sub(r"/\*.*?\*/", "", src, flags=re.S)
    src = re.sub(r'"(\\.|[^"\\])*"', '""', src)
    return src

def files(root):
    if os.path.isfile(root):
        return [root]
    return sorted(f for f in glob.glob(root + "/**/*.rs", recursive=True) if not f.endswith("/verif.rs"))

def measure(pid):
    out = {}
    for root, pat in PATTERNS.get(pid, []):
        rx = re.compile(pat)
        for f in files(root):
            txt = open(f).read()
            # tests inside the source files are not part of the shipped code
            txt = txt.split("#[cfg(test)]")[0]
            n = len(rx.findall(strip(txt)))
            if n:
                out[f"{os.path.relpath(f, '/repo')} :: {pat}"] = n
    return out

def compare(pid):
    """-> list of differences (empty = inventory unchanged)"""
    try:
        want = json.load(open(f"{V}/inventory.json")).get(pid, {})
    except Exception:
        return ["inventory.json missing"]
    have = measure(pid)
    diffs = []
    for k in sorted(set(want) | set(have)):
        if want.get(k, 0) != have.get(k, 0):
            diffs.append(f"{k}: recorded {want.get(k, 0)}, now {have.get(k, 0)}")
    return diffs

if __name__ == "__main__":
    if sys.argv[1:] == ["write"]:
        json.dump({p: measure(p) for p in PATTERNS}, open(f"{V}/inventory.json", "w"), indent=1, sort_keys=True)
        print("written")
    else:
        for p in PATTERNS:
            print(p, compare(p))
